package rules

import (
	"fmt"
	"go/token"
	"strings"

	"golang.org/x/tools/go/ssa"

	"stgverif/internal/core"
)

func init() { Registry["C06"] = c06 }

const (
	fnCountGet    = pSec + ".Count.Get"
	fnCountSQN    = pSec + ".Count.SQN"
	fnCountAddOne = pSec + ".Count.AddOne"
	fnCountSet    = pSec + ".Count.Set"
	fnCountSetSQN = pSec + ".Count.SetSQN"
	fnCountSetOvf = pSec + ".Count.SetOverflow"
	fnCountOvf    = pSec + ".Count.Overflow"
	fnEncrypt     = pSec + ".NASEncrypt"
	fnMac         = pSec + ".NASMacCalculate"
	fnPlainEnc    = pNas + ".Message.PlainNasEncode"
	fnPlainDec    = pNas + ".Message.PlainNasDecode"
)

func c06(c *core.Ctx) map[string]interface{} {
	c.Explanation = "Static counter-discipline and wiring check of the uplink NAS protection (C06). Decided, for every path of tglib.NASEncode at once: (R6.once) on every path that returns a protected message the uplink COUNT is read (SQN octet, cipher COUNT, MAC COUNT) with no mutation in between and advanced exactly once after the last read, never on an error path; with newSecurityContext both counters are reset to (0,0) before the first read and not otherwise; (R6.args) NASEncrypt/NASMacCalculate receive the UE's ciphering resp. integrity algorithm and key, COUNT = ULCount.Get(), BEARER = 1, DIRECTION = 0 (uplink), the MAC input is sequence-number-octet || payload and the output is EPD || header type || MAC || SQN || payload; (R6.cipher-iff) the cipher call is control-dependent on header type 2 or 4 and taken whenever the type is 2 or 4; (R6.plain) without a security context the result is PlainNasEncode's and no counter or key is touched; (R6.count) bit-provenance of security.Count: SQN = bits 7..0, overflow = bits 23..8, setters write exactly their field, AddOne increments then masks to 24 bits, Get masks to 24 bits; (R6.writers) nothing but NASEncode/NASDecode mutates a UE's counters. NOT decided: the MAC and keystream values themselves (C07) and the receiver's recovery. (components) the rule set of C07 (NEA/NIA algorithms) is run as part of this check: a valid MAC needs the right NIA."
	c.Assumptions = []string{"security.NASEncrypt ciphers the payload slice in place (checked structurally in C07: copy(payload, output))",
		"BEARER=1 for NAS over 3GPP access and DIRECTION=0 for uplink are the values of TS 33.501 6.4.3.1 / TS 33.401 B.1"}
	fn := mustFunc(c, pTglib, "NASEncode")
	r6paths(c, fn)
	r6argsX(c)
	r6count(c)
	r6writers(c)
	include(c, "C07")
	return nil
}

// nasEncodeEvents classifies the instructions of NASEncode/NASDecode.
func countEvent(p *core.Pather, in ssa.Instruction, ueParam string) string {
	ci, ok := in.(ssa.CallInstruction)
	if !ok {
		if st, ok := in.(*ssa.Store); ok {
			ap := p.Path(st.Addr)
			if strings.HasPrefix(ap, ueParam+".ULCount") {
				return "ul.mut:store"
			}
			if strings.HasPrefix(ap, ueParam+".DLCount") {
				return "dl.mut:store"
			}
			if strings.HasPrefix(ap, ueParam+".Knas") || strings.HasPrefix(ap, ueParam+".Kamf") {
				return "key.mut:store"
			}
		}
		return ""
	}
	name := core.CalleeName(ci.Common())
	args := ci.Common().Args
	recv := ""
	if len(args) > 0 {
		recv = p.Path(args[0])
	}
	which := ""
	switch recv {
	case ueParam + ".ULCount":
		which = "ul"
	case ueParam + ".DLCount":
		which = "dl"
	}
	switch name {
	case fnCountGet, fnCountSQN, fnCountOvf:
		if which != "" {
			return which + ".read:" + name[strings.LastIndex(name, ".")+1:]
		}
	case fnCountAddOne:
		if which != "" {
			return which + ".AddOne"
		}
	case fnCountSet:
		if which != "" {
			a, okA := core.ConstInt(args[1])
			b, okB := core.ConstInt(args[2])
			if okA && okB && a == 0 && b == 0 {
				return which + ".Set0"
			}
			return which + ".mut:Set(" + p.Path(args[1]) + "," + p.Path(args[2]) + ")"
		}
	case fnCountSetSQN:
		if which != "" {
			return which + ".mut:SetSQN(" + p.Path(args[1]) + ")"
		}
	case fnCountSetOvf:
		if which != "" {
			return which + ".mut:SetOverflow(" + p.Path(args[1]) + ")"
		}
	case fnEncrypt:
		return "encrypt"
	case fnMac:
		return "mac"
	case fnPlainEnc:
		return "plainenc"
	case fnPlainDec:
		return "plaindec"
	case "fmt.Errorf":
		return "errorf"
	}
	// any other call that receives the address of a counter could mutate it
	for _, a := range args {
		ap := p.Path(a)
		if ap == ueParam+".ULCount" {
			return "ul.mut:" + shortName(name)
		}
		if ap == ueParam+".DLCount" {
			return "dl.mut:" + shortName(name)
		}
	}
	return ""
}

func has(path []string, ev string) bool {
	for _, e := range path {
		if e == ev {
			return true
		}
	}
	return false
}

func hasPrefix(path []string, pre string) bool {
	for _, e := range path {
		if strings.HasPrefix(e, pre) {
			return true
		}
	}
	return false
}

func countEv(path []string, ev string) int {
	n := 0
	for _, e := range path {
		if e == ev {
			n++
		}
	}
	return n
}

func indexOf(path []string, pred func(string) bool) (first, last int) {
	first, last = -1, -1
	for i, e := range path {
		if pred(e) {
			if first < 0 {
				first = i
			}
			last = i
		}
	}
	return
}

func r6paths(c *core.Ctx, fn *ssa.Function) {
	if r6pathsX(c) {
		return
	}
	const R1, R2, R3 = "R6.once", "R6.cipher-iff", "R6.plain"
	c.Rule(R1, "NASEncode: on every protected success path COUNT is read unchanged and advanced exactly once after the last read; reset iff new context; never advanced on an error path")
	c.Rule(R2, "NASEncode: NASEncrypt is executed exactly on the paths where the header type is 2 or 4")
	c.Rule(R3, "NASEncode: without security context the plain encoding is returned and no counter/key is touched")
	p := core.NewPather(fn)
	// helpers of the same package are seen through: their counter operations and branches belong
	// to the paths of this function (a step moved into a helper is still the same step)
	p.InlineCalls = func(call *ssa.Call) bool {
		callee := call.Call.StaticCallee()
		if callee != nil && isNewCountMethod(callee) {
			return true // a Count method outside the known vocabulary is seen through to the known ones
		}
		return callee != nil && fnPkgPath(callee) == pTglib && callee.Name() != "EncodeNasPduWithSecurity"
	}
	if len(fn.Params) != 4 {
		c.Fail(R1, "tglib.NASEncode:signature", fn.Pos(), "expected 4 parameters (ue, msg, securityContextAvailable, newSecurityContext)")
		return
	}
	sht := "p1.SecurityHeader.SecurityHeaderType"
	ev := func(in ssa.Instruction) string {
		if r, ok := in.(*ssa.Return); ok {
			if len(r.Results) == 2 {
				return "ret:" + p.Path(r.Results[1])
			}
			return "ret"
		}
		return countEvent(p, in, "p0")
	}
	br := func(cond ssa.Value) string {
		s := p.Path(cond)
		switch s {
		case "p2":
			return "ctx"
		case "p3":
			return "new"
		}
		if bo, ok := cond.(*ssa.BinOp); ok {
			if k, isK := core.ConstInt(bo.Y); isK && p.Path(bo.X) == sht {
				return fmt.Sprintf("sht:%s:%d", bo.Op.String(), k)
			}
			if k, isK := core.ConstInt(bo.X); isK && p.Path(bo.Y) == sht {
				return fmt.Sprintf("sht:%s:%d", flipOp(bo.Op).String(), k)
			}
		}
		if bo, ok := cond.(*ssa.BinOp); ok && (bo.Op == token.NEQ || bo.Op == token.EQL) {
			if k, ok := bo.Y.(*ssa.Const); ok && k.Value == nil {
				x := p.Path(bo.X)
				if strings.Contains(x, "#1") || strings.HasPrefix(x, "call:"+fnEncrypt) {
					if bo.Op == token.NEQ {
						return "err(" + errSrc(x) + ")"
					}
					return "noerr(" + errSrc(x) + ")"
				}
			}
		}
		if strings.Contains(s, sht) {
			return "shtcond{" + s + "}"
		}
		return ""
	}
	paths, ok := core.EventPathsS(fn, p, ev, br, 1, 10000)
	if !ok {
		c.Undecided("tglib.NASEncode has more than 10000 entry→return paths")
	}
	c.Sites(len(paths))
	nProt, nPlain, nErr := 0, 0, 0
	for _, path := range paths {
		desc := strings.Join(path, " ")
		key := "tglib.NASEncode:path{" + pathKey(path) + "}"
		pos := fn.Pos()
		isErr := has(path, "errorf") || hasPrefix(path, "err(") && hasErrTrue(path)
		switch {
		case has(path, "ctx=F"):
			nPlain++
			bad := ""
			for _, e := range path {
				if strings.HasPrefix(e, "ul.") || strings.HasPrefix(e, "dl.") || strings.HasPrefix(e, "key.") || e == "encrypt" || e == "mac" {
					bad = e
				}
			}
			if bad != "" {
				c.Fail(R3, key, pos, "plain path touches security state: %s (%s)", bad, desc)
			} else if !has(path, "plainenc") || !strings.HasPrefix(path[len(path)-1], "ret:call:"+fnPlainEnc) {
				c.Fail(R3, key, pos, "plain path does not return PlainNasEncode's result (%s)", desc)
			} else {
				c.Ok(R3, key, pos, desc)
			}
		case isErr:
			nErr++
			if has(path, "ul.AddOne") {
				c.Fail(R1, key, pos, "uplink COUNT advanced on an error path (%s)", desc)
			} else {
				c.Ok(R1, key, pos, "error path, COUNT not advanced: "+desc)
			}
		case has(path, "ctx=T"):
			nProt++
			r6protectedPath(c, R1, R2, key, pos, path, desc)
		default:
			c.Fail(R1, key, pos, "path not classified (no securityContextAvailable branch): %s", desc)
		}
	}
	if nProt == 0 || nPlain == 0 {
		c.Fail(R1, "tglib.NASEncode:shape", fn.Pos(), "expected protected and plain paths, found %d protected, %d plain, %d error", nProt, nPlain, nErr)
	}
	c.Note("NASEncode: %d entry→return paths enumerated (%d protected success, %d plain, %d error)", len(paths), nProt, nPlain, nErr)
}

func errSrc(x string) string {
	switch {
	case strings.Contains(x, fnPlainEnc):
		return "plainenc"
	case strings.Contains(x, fnEncrypt):
		return "encrypt"
	case strings.Contains(x, fnMac):
		return "mac"
	case strings.Contains(x, fnPlainDec):
		return "plaindec"
	}
	return "other"
}

func hasErrTrue(path []string) bool {
	for _, e := range path {
		if strings.HasPrefix(e, "err(") && strings.HasSuffix(e, "=T") {
			return true
		}
		if strings.HasPrefix(e, "noerr(") && strings.HasSuffix(e, "=F") {
			return true
		}
	}
	return false
}

// pathKey is a short line-free identity of a path: its branch decisions.
func pathKey(path []string) string {
	var ks []string
	for _, e := range path {
		if strings.HasSuffix(e, "=T") || strings.HasSuffix(e, "=F") {
			ks = append(ks, e)
		}
	}
	return strings.Join(ks, ",")
}

func r6protectedPath(c *core.Ctx, R1, R2, key string, pos token.Pos, path []string, desc string) {
	isRead := func(e string) bool { return strings.HasPrefix(e, "ul.read:") }
	firstRead, lastRead := indexOf(path, isRead)
	firstMut, lastMut := indexOf(path, func(e string) bool { return strings.HasPrefix(e, "ul.mut:") })
	_ = lastMut
	nAdd := countEv(path, "ul.AddOne")
	addIdx, _ := indexOf(path, func(e string) bool { return e == "ul.AddOne" })
	set0, _ := indexOf(path, func(e string) bool { return e == "ul.Set0" })
	dset0, _ := indexOf(path, func(e string) bool { return e == "dl.Set0" })
	macIdx, _ := indexOf(path, func(e string) bool { return e == "mac" })
	var errs []string
	if !has(path, "mac") {
		errs = append(errs, "protected path computes no MAC")
	}
	if firstRead < 0 {
		errs = append(errs, "uplink COUNT never read")
	}
	if !has(path, "ul.read:SQN") {
		errs = append(errs, "sequence number octet not read from ULCount.SQN()")
	}
	if nAdd != 1 {
		errs = append(errs, fmt.Sprintf("ULCount.AddOne executed %d times (want exactly 1)", nAdd))
	} else if addIdx < lastRead {
		errs = append(errs, "ULCount advanced before its last read (SQN/cipher/MAC would use different COUNTs)")
	} else if macIdx >= 0 && addIdx < macIdx {
		errs = append(errs, "ULCount advanced before the MAC is computed")
	}
	if firstMut >= 0 {
		errs = append(errs, "uplink COUNT mutated other than by Set(0,0)/AddOne: "+path[firstMut])
	}
	if hasPrefix(path, "dl.mut:") || has(path, "dl.AddOne") {
		errs = append(errs, "downlink COUNT mutated while protecting an uplink message")
	}
	if hasPrefix(path, "key.mut") {
		errs = append(errs, "NAS key written by NASEncode")
	}
	if has(path, "new=T") {
		if set0 < 0 || dset0 < 0 {
			errs = append(errs, "new security context: both counters must be Set(0,0)")
		} else if firstRead >= 0 && (set0 > firstRead || dset0 > firstRead) {
			errs = append(errs, "new security context: counters reset after COUNT was already read")
		}
	} else if has(path, "new=F") {
		if set0 >= 0 || dset0 >= 0 {
			errs = append(errs, "counter reset without a new security context (COUNT reuse under the same key)")
		}
	} else {
		errs = append(errs, "no branch on newSecurityContext on this path")
	}
	if set0 >= 0 && firstRead >= 0 && set0 > firstRead {
		errs = append(errs, "ULCount reset between reads")
	}
	if len(errs) > 0 {
		c.Fail(R1, key, pos, "%s (%s)", strings.Join(errs, "; "), desc)
	} else {
		c.Ok(R1, key, pos, desc)
	}
	// cipher-iff on this path
	ciphered := has(path, "encrypt")
	if hasPrefix(path, "shtcond{") {
		c.Undecided("NASEncode branches on the security header type in a form the rule does not recognise: %s", desc)
	}
	feas := feasibleSHT(path, []int64{1, 2, 3, 4})
	cipherTypes, clearTypes := 0, 0
	for _, t := range feas {
		if t == 2 || t == 4 {
			cipherTypes++
		} else {
			clearTypes++
		}
	}
	switch {
	case len(feas) == 0:
		c.Ok(R2, key, pos, "path infeasible for header types 1..4")
	case ciphered && clearTypes == 0, !ciphered && cipherTypes == 0:
		c.Ok(R2, key, pos, fmt.Sprintf("ciphered=%v feasible header types=%v", ciphered, feas))
	case ciphered:
		c.Fail(R2, key, pos, "payload is ciphered on a path taken for header types %v (integrity-protected-only types 1/3 must go out in clear): %s", feas, desc)
	default:
		c.Fail(R2, key, pos, "payload is NOT ciphered on a path taken for header types %v (types 2/4 must be ciphered): %s", feas, desc)
	}
}

func flipOp(op token.Token) token.Token {
	switch op {
	case token.LSS:
		return token.GTR
	case token.GTR:
		return token.LSS
	case token.LEQ:
		return token.GEQ
	case token.GEQ:
		return token.LEQ
	}
	return op
}

// feasibleSHT filters the domain by the "sht:<op>:<k>=T|F" branch events of a path.
func feasibleSHT(path []string, domain []int64) []int64 {
	var out []int64
	for _, v := range domain {
		ok := true
		for _, e := range path {
			if !strings.HasPrefix(e, "sht:") {
				continue
			}
			taken := strings.HasSuffix(e, "=T")
			body := strings.TrimSuffix(strings.TrimSuffix(e, "=T"), "=F")
			parts := strings.SplitN(body, ":", 3)
			if len(parts) != 3 {
				continue
			}
			var k int64
			fmt.Sscanf(parts[2], "%d", &k)
			var holds bool
			switch parts[1] {
			case "==":
				holds = v == k
			case "!=":
				holds = v != k
			case "<":
				holds = v < k
			case "<=":
				holds = v <= k
			case ">":
				holds = v > k
			case ">=":
				holds = v >= k
			default:
				continue
			}
			if holds != taken {
				ok = false
			}
		}
		if ok {
			out = append(out, v)
		}
	}
	return out
}

// ---------------------------------------------------------------- R6.args
func r6args(c *core.Ctx, fn *ssa.Function) {
	const R = "R6.args"
	c.Rule(R, "NASEncode: algorithm, key, COUNT, BEARER, DIRECTION and payload arguments of NASEncrypt/NASMacCalculate; MAC input and output layout")
	p := core.NewPather(fn)
	payload := "call:" + fnPlainEnc + "(p1)#0"
	ulGet := "call:" + fnCountGet + "(p0.ULCount)"
	sqn := "call:" + fnCountSQN + "(p0.ULCount)"
	macIn := "call:builtin.append([" + sqn + "]," + payload + ")"
	checkArgs := func(callee string, want []string, names []string) *ssa.Call {
		calls := core.CallsTo(fn, callee)
		if len(calls) != 1 {
			c.Fail(R, "tglib.NASEncode:"+shortName(callee)+":count", fn.Pos(), "expected exactly one call of %s, found %d", shortName(callee), len(calls))
			return nil
		}
		call := calls[0].(*ssa.Call)
		c.Sites(1)
		for i, w := range want {
			got := p.Path(call.Call.Args[i])
			key := "tglib.NASEncode:" + shortName(callee) + ":arg:" + names[i]
			c.Check(got == w, R, key, call.Pos(), got, "%s argument %s is %s, want %s", shortName(callee), names[i], got, w)
		}
		return call
	}
	names := []string{"AlgoID", "Key", "Count", "Bearer", "Direction", "payload"}
	checkArgs(fnEncrypt, []string{"p0.CipheringAlg", "p0.KnasEnc", ulGet, "1", "0", payload}, names)
	mac := checkArgs(fnMac, []string{"p0.IntegrityAlg", "p0.KnasInt", ulGet, "1", "0", macIn}, names)
	// constants of the library agree with the standard's values
	c.Check(mustConst(c, pSec, "Bearer3GPP") == 1, R, "security.Bearer3GPP", token.NoPos, "=1", "Bearer3GPP must be 1 (TS 33.501 6.4.3.1)")
	c.Check(mustConst(c, pSec, "DirectionUplink") == 0, R, "security.DirectionUplink", token.NoPos, "=0", "DirectionUplink must be 0")
	c.Check(mustConst(c, pSec, "DirectionDownlink") == 1, R, "security.DirectionDownlink", token.NoPos, "=1", "DirectionDownlink must be 1")
	// output layout on the success return: EPD, SHT, MAC, SQN, payload
	if mac != nil {
		macOut := "call:" + fnMac + "(p0.IntegrityAlg,p0.KnasInt," + ulGet + ",1,0," + macIn + ")#0"
		want := "call:builtin.append([p1.SecurityHeader.ProtocolDiscriminator,p1.SecurityHeader.SecurityHeaderType],call:builtin.append(" + macOut + "," + macIn + "))"
		found := false
		var got []string
		for _, b := range fn.Blocks {
			for _, in := range b.Instrs {
				if r, ok := in.(*ssa.Return); ok && len(r.Results) == 2 {
					s := p.Path(r.Results[0])
					if strings.Contains(s, fnMac) && strings.Contains(s, "builtin.append") && strings.Count(s, "builtin.append") >= 2 {
						got = append(got, s)
						if s == want {
							found = true
						}
					}
				}
			}
		}
		if found {
			c.Ok(R, "tglib.NASEncode:output-layout", mac.Pos(), "EPD || header type || MAC || SQN || payload")
		} else if len(got) > 0 {
			c.Fail(R, "tglib.NASEncode:output-layout", mac.Pos(), "protected output is %s, want EPD || header type || MAC || SQN || payload", got[0])
		} else {
			c.Fail(R, "tglib.NASEncode:output-layout", mac.Pos(), "no return assembles header || MAC || SQN || payload")
		}
	}
}

// ---------------------------------------------------------------- R6.count
// countEffect: the value of receiver.count after a call of a Count method, as a bit
// vector over the sources "p0.count" (value before the call), "p1", "p2" (arguments)
// and "count+1" (the incremented counter, an opaque 32-bit source because the carry
// chain of an addition is not a bit placement). Successive stores and calls of other
// Count methods on the same receiver are composed, so the summary does not depend
// on how the methods are split into helpers. ok=false: not straight-line, or an
// effect the domain cannot express.
func countEffect(c *core.Ctx, fn *ssa.Function, depth int) (core.BitVec, bool) {
	const cnt = "p0.count"
	if fn == nil || len(fn.Blocks) != 1 || depth > 4 {
		return nil, false
	}
	p := core.NewPather(fn)
	ba := core.NewBitAnalyzer(fn)
	state := core.SourceVec(cnt, 32)
	lastStore := -1
	for idx, in := range fn.Blocks[0].Instrs {
		switch x := in.(type) {
		case *ssa.Store:
			if p.Path(x.Addr) != cnt {
				if strings.HasPrefix(p.Path(x.Addr), "p0") {
					return nil, false
				}
				continue
			}
			// loads of the counter feeding this store must come after the previous store
			okOrder := true
			var walk func(v ssa.Value, d int)
			walk = func(v ssa.Value, d int) {
				if d > 12 {
					return
				}
				if ld, isLoad := v.(*ssa.UnOp); isLoad && ld.Op == token.MUL && p.Path(ld.X) == cnt {
					if core.InstrIndex(ld) < lastStore {
						okOrder = false
					}
					return
				}
				if ins, isIns := v.(ssa.Instruction); isIns {
					for _, op := range ins.Operands(nil) {
						if *op != nil {
							walk(*op, d+1)
						}
					}
				}
			}
			walk(x.Val, 0)
			if !okOrder {
				return nil, false
			}
			var v core.BitVec
			if bo, isAdd := x.Val.(*ssa.BinOp); isAdd && bo.Op == token.ADD {
				k, isK := core.ConstInt(bo.Y)
				if isK && k == 1 && p.Path(bo.X) == cnt {
					// count + 1: an opaque source; only valid on the untouched counter
					for i, b := range state {
						if b.Kind != core.BSrc || b.Src != cnt || b.Idx != i || b.Neg || b.More != "" {
							return nil, false
						}
					}
					state = core.SourceVec("count+1", 32)
					lastStore = idx
					continue
				}
			}
			v = ba.Bits(x.Val)
			if v == nil || len(v) != 32 {
				return nil, false
			}
			state = core.SubstSource(v, cnt, state)
			lastStore = idx
		case *ssa.Call:
			callee := x.Call.StaticCallee()
			name := core.CalleeName(&x.Call)
			if callee == nil || !strings.HasPrefix(name, pSec+".Count.") || len(x.Call.Args) == 0 || p.Path(x.Call.Args[0]) != "p0" {
				if strings.HasPrefix(name, pSec+".Count.") {
					return nil, false // a Count method on another receiver
				}
				continue
			}
			eff, ok := countEffect(c, callee, depth+1)
			if !ok {
				return nil, false
			}
			// substitute the callee's parameters by the argument bits, its old counter by the current state
			// (the callee's parameter names are made unique first: the state may already hold
			// bits of the caller's own p1, p2)
			comp := eff
			for ai := 1; ai < len(x.Call.Args); ai++ {
				comp = core.SubstSource(comp, fmt.Sprintf("p%d", ai), core.SourceVec(fmt.Sprintf("@arg%d", ai), 64))
			}
			comp = core.SubstSource(comp, cnt, state)
			for ai := 1; ai < len(x.Call.Args); ai++ {
				ab := ba.Bits(x.Call.Args[ai])
				if ab == nil {
					return nil, false
				}
				comp = core.SubstSource(comp, fmt.Sprintf("@arg%d", ai), ab)
			}
			state = comp
			lastStore = idx
		}
	}
	return state, true
}

func r6count(c *core.Ctx) {
	const R = "R6.count"
	c.Rule(R, "security.Count: SQN = bits 7..0, overflow = bits 23..8; every setter writes exactly its field; AddOne is +1 modulo 2^24; Get is the 24-bit counter (effects composed through helper calls)")
	const cnt = "p0.count"
	method := func(n string) *ssa.Function { return mustFunc(c, pSec, "Count."+n) }
	// --- readers
	{
		fn := method("SQN")
		if v := singleReturn(c, R, fn); v != nil {
			b := core.NewBitAnalyzer(fn).Bits(v)
			c.Check(b != nil && len(b) == 8 && b.IsCopy(7, 0, cnt, 0), R, "security.Count.SQN", fn.Pos(), b.Describe(), "SQN() must be bits 7..0 of the counter, is %s", b.Describe())
		}
	}
	{
		fn := method("Overflow")
		if v := singleReturn(c, R, fn); v != nil {
			b := core.NewBitAnalyzer(fn).Bits(v)
			c.Check(b != nil && len(b) == 16 && b.IsCopy(15, 0, cnt, 8), R, "security.Count.Overflow", fn.Pos(), b.Describe(), "Overflow() must be bits 23..8 of the counter, is %s", b.Describe())
		}
	}
	// --- writers: final counter as a function of (old counter, arguments)
	top := func(b core.BitVec) bool { return b.IsCopy(31, 24, cnt, 24) || b.IsConst(31, 24, 0) }
	clean := map[string]bool{} // the method leaves bits 31..24 zero whatever they were
	for _, m := range []struct {
		name string
		ok   func(b core.BitVec) bool
		want string
	}{
		{"SetSQN", func(b core.BitVec) bool { return b.IsCopy(7, 0, "p1", 0) && b.IsCopy(23, 8, cnt, 8) && top(b) }, "write bits 7..0 from the argument and keep bits 23..8"},
		{"SetOverflow", func(b core.BitVec) bool { return b.IsCopy(7, 0, cnt, 0) && b.IsCopy(23, 8, "p1", 0) && top(b) }, "write bits 23..8 from all 16 bits of the argument and keep bits 7..0"},
		{"Set", func(b core.BitVec) bool { return b.IsCopy(7, 0, "p2", 0) && b.IsCopy(23, 8, "p1", 0) && top(b) }, "write the SQN to bits 7..0 and all 16 bits of the overflow to bits 23..8"},
	} {
		fn := method(m.name)
		b, ok := countEffectX(c, fn)
		if !ok {
			c.SoftUndecided("security.Count.%s: effect on the counter not expressible as a bit placement (not straight-line, or arithmetic on the counter)", m.name)
			continue
		}
		c.Check(m.ok(b), R, "security.Count."+m.name, fn.Pos(), b.Describe(), "%s must %s; new value is %s", m.name, m.want, b.Describe())
		clean[m.name] = b.IsConst(31, 24, 0)
	}
	// --- AddOne: +1 modulo 2^24
	addOK := false
	{
		fn := method("AddOne")
		if b, ok := countEffectX(c, fn); ok {
			good := b.IsCopy(23, 0, "count+1", 0) && b.IsConst(31, 24, 0)
			c.Check(good, R, "security.Count.AddOne", fn.Pos(), b.Describe(), "AddOne must leave (count+1) masked to 24 bits (wrap at 2^24); new value is %s", b.Describe())
			addOK, clean["AddOne"] = true, good
		} else {
			// decomposed form: sqn' = SQN()+1; overflow' = Overflow() (+1 when sqn' == 0); Set(overflow', sqn')
			p := core.NewPather(fn)
			sq := "call:" + fnCountSQN + "(p0)"
			ov := "call:" + fnCountOvf + "(p0)"
			ev := func(in ssa.Instruction) string {
				if ci, isCall := in.(*ssa.Call); isCall && core.CalleeName(&ci.Call) == fnCountSet && p.Path(ci.Call.Args[0]) == "p0" {
					return "set(" + p.Path(ci.Call.Args[1]) + "," + p.Path(ci.Call.Args[2]) + ")"
				}
				if st, isSt := in.(*ssa.Store); isSt && strings.HasPrefix(p.Path(st.Addr), "p0") {
					return "store"
				}
				return ""
			}
			br := func(v ssa.Value) string { return p.Path(v) }
			paths, okP := core.EventPathsR(fn, p, ev, br, 1, 100)
			wrapT := "((" + sq + "+1)==0)=T set((" + ov + "+1),(" + sq + "+1))"
			wrapF := "((" + sq + "+1)==0)=F set(" + ov + ",(" + sq + "+1))"
			wrapT2 := "((" + sq + "+1)!=0)=F set((" + ov + "+1),(" + sq + "+1))"
			wrapF2 := "((" + sq + "+1)!=0)=T set(" + ov + ",(" + sq + "+1))"
			seen := map[string]bool{}
			for _, pa := range paths {
				seen[strings.Join(pa, " ")] = true
			}
			if okP && len(seen) == 2 && ((seen[wrapT] && seen[wrapF]) || (seen[wrapT2] && seen[wrapF2])) {
				c.Ok(R, "security.Count.AddOne", fn.Pos(), "SQN+1 (mod 256), overflow+1 (mod 65536) exactly when the SQN wrapped to 0, stored through Set")
				addOK, clean["AddOne"] = true, clean["Set"]
			}
		}
		if !addOK {
			c.SoftUndecided("security.Count.AddOne: neither (count+1) masked to 24 bits nor the SQN/overflow carry form")
		}
	}
	// --- Get: the 24-bit counter, by masking or because no writer can leave bits 31..24 set
	{
		fn := method("Get")
		p := core.NewPather(fn)
		v := singleReturn(c, R, fn)
		if v != nil && len(fn.Blocks) == 1 {
			eff, okE := countEffectX(c, fn) // Get may normalise the counter before returning it
			rb := core.NewBitAnalyzer(fn).Bits(v)
			if okE && rb != nil && p.Path(v) == cnt {
				rb = eff // returns the (possibly masked) stored counter
			}
			masked := rb != nil && len(rb) == 32 && rb.IsCopy(23, 0, cnt, 0) && rb.IsConst(31, 24, 0)
			plain := rb != nil && len(rb) == 32 && rb.IsCopy(31, 0, cnt, 0)
			invariant := clean["Set"] && clean["SetSQN"] && clean["SetOverflow"] && clean["AddOne"]
			c.Check(masked || (plain && invariant), R, "security.Count.Get", fn.Pos(), "24-bit counter",
				"Get must return the counter with bits 31..24 zero: either by masking, or unmasked when every writer (Set, SetSQN, SetOverflow, AddOne) provably clears bits 31..24; returns %s (writers clearing the top octet: %v)", rb.Describe(), clean)
		}
	}
}

func singleReturn(c *core.Ctx, R string, fn *ssa.Function) ssa.Value {
	var v ssa.Value
	n := 0
	for _, b := range fn.Blocks {
		for _, in := range b.Instrs {
			if r, ok := in.(*ssa.Return); ok && len(r.Results) == 1 {
				v = r.Results[0]
				n++
			}
		}
	}
	if n != 1 {
		c.Fail(R, shortName(core.FuncName(fn))+":shape", fn.Pos(), "expected a single return of one value, found %d", n)
		return nil
	}
	return v
}

func singleStoreTo(c *core.Ctx, R string, fn *ssa.Function, addr string) ssa.Value {
	p := core.NewPather(fn)
	var v ssa.Value
	n := 0
	for _, b := range fn.Blocks {
		for _, in := range b.Instrs {
			if st, ok := in.(*ssa.Store); ok && p.Path(st.Addr) == addr {
				v = st.Val
				n++
			}
		}
	}
	if n != 1 || len(fn.Blocks) != 1 {
		c.Fail(R, shortName(core.FuncName(fn))+":shape", fn.Pos(), "expected straight-line code with a single store to %s, found %d stores in %d blocks", addr, n, len(fn.Blocks))
		return nil
	}
	return v
}

// ---------------------------------------------------------------- R6.writers
// who-may-write: the counters of a RanUeContext are mutated only by NASEncode /
// NASDecode, the NAS keys only by the derivation functions.
func r6writers(c *core.Ctx) {
	const R = "R6.writers"
	c.Rule(R, "only tglib.NASEncode/NASDecode mutate a UE's ULCount/DLCount; only DerivateKamf/DerivateAlgKey write Kamf/KnasEnc/KnasInt")
	allowedCount := map[string]bool{pTglib + ".NASEncode": true, pTglib + ".NASDecode": true}
	allowedKey := map[string]bool{pTglib + ".RanUeContext.DerivateKamf": true, pTglib + ".RanUeContext.DerivateAlgKey": true}
	// a helper that only NASEncode/NASDecode (or such a helper) call is part of them; likewise for
	// the key derivation functions: close the allowed sets under "every static caller is allowed"
	var all []*ssa.Function
	for _, pp := range []string{pMain, pStg, pTglib, pBuild} {
		all = append(all, allFuncsOf(c.P.SSAPkg(pp))...)
	}
	callers := map[string]map[string]bool{}
	for _, f := range all {
		for _, ci := range core.Calls(f) {
			if g := ci.Common().StaticCallee(); g != nil {
				gn := core.FuncName(g)
				if callers[gn] == nil {
					callers[gn] = map[string]bool{}
				}
				callers[gn][core.FuncName(f)] = true
			}
		}
	}
	closeUnder := func(allowed map[string]bool) {
		for changed := true; changed; {
			changed = false
			for _, f := range all {
				fnm := core.FuncName(f)
				if allowed[fnm] || len(callers[fnm]) == 0 || (f.Object() != nil && f.Object().Exported()) {
					continue
				}
				ok := true
				for cl := range callers[fnm] {
					if !allowed[cl] {
						ok = false
					}
				}
				if ok {
					allowed[fnm] = true
					changed = true
				}
			}
		}
	}
	closeUnder(allowedCount)
	closeUnder(allowedKey)
	nf := 0
	viol := 0
	for _, pp := range []string{pMain, pStg, pTglib, pBuild} {
		sp := c.P.SSAPkg(pp)
		for _, f := range allFuncsOf(sp) {
			nf++
			p := core.NewPather(f)
			fname := core.FuncName(f)
			for _, b := range f.Blocks {
				for _, in := range b.Instrs {
					switch x := in.(type) {
					case ssa.CallInstruction:
						n := core.CalleeName(x.Common())
						if n == fnCountAddOne || n == fnCountSet || n == fnCountSetSQN || n == fnCountSetOvf {
							recv := p.Path(x.Common().Args[0])
							if (strings.HasSuffix(recv, ".ULCount") || strings.HasSuffix(recv, ".DLCount")) && !allowedCount[fname] {
								viol++
								c.Fail(R, fname+":"+shortName(n)+"("+recv+")", x.Pos(), "NAS COUNT mutated outside NASEncode/NASDecode")
							}
						}
					case *ssa.Store:
						ap := p.Path(x.Addr)
						if isFieldOfUE(x.Addr, "ULCount", "DLCount") && !allowedCount[fname] {
							viol++
							c.Fail(R, fname+":store("+ap+")", x.Pos(), "NAS COUNT overwritten outside NASEncode/NASDecode")
						}
						if isFieldOfUE(x.Addr, "Kamf", "KnasEnc", "KnasInt") && !allowedKey[fname] {
							viol++
							c.Fail(R, fname+":store("+ap+")", x.Pos(), "NAS key written outside the key derivation functions")
						}
					}
				}
			}
		}
	}
	if viol == 0 {
		c.Ok(R, "main+stgutg+tglib:count-and-key-writers", token.NoPos, itoa(nf)+" functions scanned; counters written only in NASEncode/NASDecode, keys only in DerivateKamf/DerivateAlgKey")
	}
	// every protected uplink message goes through NASEncode: no other uplink MAC computation
	n := 0
	for _, pp := range []string{pMain, pStg, pTglib} {
		for _, f := range allFuncsOf(c.P.SSAPkg(pp)) {
			for _, ci := range core.CallsTo(f, fnMac) {
				n++
				fname := core.FuncName(f)
				if !allowedCount[fname] {
					c.Fail(R, fname+":NASMacCalculate", ci.Pos(), "NAS MAC computed outside NASEncode/NASDecode (COUNT discipline bypassed)")
				}
			}
		}
	}
	c.Sites(n)
}

// isFieldOfUE reports whether addr is (inside) one of the named fields of a tglib.RanUeContext.
func isFieldOfUE(addr ssa.Value, fields ...string) bool {
	for depth := 0; depth < 6; depth++ {
		switch x := addr.(type) {
		case *ssa.FieldAddr:
			name := fieldNameOf(x)
			if t := derefNamed(x.X.Type()); t == pTglib+".RanUeContext" {
				for _, f := range fields {
					if name == f {
						return true
					}
				}
				return false
			}
			addr = x.X
		case *ssa.IndexAddr:
			addr = x.X
		default:
			return false
		}
	}
	return false
}
