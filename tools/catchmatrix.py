#!/usr/bin/env python3
"""catchmatrix.py [seed-ids...] : apply every seeded change to a scratch copy of /repo's current tree, run the quick check
of its property there, and record the verdict in seeded/catch_matrix.json (used by mkmeta.py and DESIGN.md)."""
import json, os, subprocess, sys, tempfile, shutil, re
from concurrent.futures import ThreadPoolExecutor
root='/verif/seeded'
extra={'C05-4':['C20']}   # seeds whose author filed them under a neighbouring property
SV=os.environ.get('SV','/verif/bin/stgverif')   # SV=<dev binary>: no rebuild, result file not written
if 'SV' not in os.environ: subprocess.run(['/verif/check','list','quick'],stdout=subprocess.DEVNULL,check=True)
def run(sid):
    d=os.path.join(root,sid)
    prop=sid.split('-')[0]
    t=tempfile.mkdtemp(prefix='cm.',dir='/tmp')
    try:
        subprocess.run(['rsync','-a','--exclude','.git','/repo/',t+'/repo/'],check=True); subprocess.run(['git','init','-q'],cwd=t+'/repo')
        r=subprocess.run(['git','apply',os.path.join(d,'patch.diff')],cwd=t+'/repo',capture_output=True,text=True)
        if r.returncode!=0:
            return sid,{"verdict":"patch does not apply to the current tree (superseded by a later fix: commit)"}
        out={}
        for p in [prop]+extra.get(sid,[]):
            env=dict(os.environ,VERIF_REPO=t+'/repo',VERIF_EVIDENCE_DIR=t+'/ev')
            r=subprocess.run([SV,p,'quick'],capture_output=True,text=True,env=env)
            rules=sorted(set(re.findall(r'^\S+: (R[\w.\-]+):',r.stdout,re.M)))
            v={0:'MISSED (exit 0)',1:'VIOLATION',2:'UNDECIDED'}.get(r.returncode,'exit %d'%r.returncode)
            out[p]={"verdict":v,"rules":rules}
            if r.returncode==2:
                out[p]["undecided"]=[l[:200] for l in r.stdout.splitlines() if l.startswith('UNDECIDED')][:3]
        best=out[prop]
        for p,o in out.items():
            if o['verdict']=='VIOLATION' and best['verdict']!='VIOLATION': best=dict(o,by_property=p)
        return sid,dict(best,all=out) if len(out)>1 else best
    finally:
        shutil.rmtree(t,ignore_errors=True)
ids=sys.argv[1:] or sorted(x for x in os.listdir(root) if os.path.isdir(os.path.join(root,x)))
res={}
mp=os.path.join(root,'catch_matrix.json')
if os.path.exists(mp) and sys.argv[1:]: res=json.load(open(mp))
with ThreadPoolExecutor(8) as ex:
    for sid,o in ex.map(run,ids):
        res[sid]=o
        print(sid,o['verdict'],' '.join(o.get('rules',[])))
if 'SV' not in os.environ: json.dump(dict(sorted(res.items())),open(mp,'w'),indent=1)
