package rules

import (
	"fmt"
	"go/token"
	"go/types"
	"os"
	"strings"

	"golang.org/x/tools/go/ssa"

	"stgverif/internal/core"
)

// nasEncodeEval interprets NASEncode abstractly (DESIGN §11.1). Summaries: PlainNasEncode
// returns the slice "plain"; NASEncrypt rewrites the slice it is handed in place (a new
// version of the same object); NASMacCalculate returns the 4-octet slice "mac" (its length
// is what C07 decides). The COUNT methods are entered. What is decided here is independent
// of how the octets are assembled (append chains, make+copy, helpers).
type nasEncOutcome struct {
	o        core.AOutcome
	enc, mac *core.AEvent
}

func nasEncodeEval(c *core.Ctx) ([]nasEncOutcome, bool) {
	fn := mustFunc(c, pTglib, "NASEncode")
	ex := core.NewExec()
	ex.OnCall = func(ev *core.AEvent, m *core.AMem) (core.AVal, bool) {
		switch ev.Callee {
		case fnPlainEnc:
			return core.AVal{K: core.ATuple, Elems: []core.AVal{{K: core.ASlice, Path: "plain", Lo: 0, Len: -1, NonNil: true}, {K: core.AUnknown, Path: "plainerr"}}}, true
		case fnEncrypt:
			if len(ev.Args) == 6 && ev.Args[5].K == core.ASlice {
				m.HavocFrom(ev.Args[5].Path, 0)
			}
			return core.AVal{K: core.AUnknown, Path: "encerr"}, true
		case fnMac:
			mac := core.AVal{K: core.ASlice, Path: "mac", Lo: 0, Len: 4, NonNil: true}
			for i := 0; i < 4; i++ {
				m.Store(fmt.Sprintf("mac[%d]", i), core.ArgBits(fmt.Sprintf("MAC[%d]", i), 8, 8), nil)
			}
			return core.AVal{K: core.ATuple, Elems: []core.AVal{mac, {K: core.AUnknown, Path: "macerr"}}}, true
		}
		// the counter operations are entered (their effect on the stored COUNT is what R6.args reads)
		// and also kept in the path's trace (their order is what R6.once reads)
		if strings.HasPrefix(ev.Callee, pSec+".Count.") {
			ev.Record = true
		}
		return core.AVal{}, false
	}
	args := core.DefaultArgs(fn)
	if len(args) != 4 {
		return nil, false
	}
	args[0], args[1] = core.NonNilArg(args[0]), core.NonNilArg(args[1])
	outs, err := ex.Run(fn, args, nil)
	if err != nil || len(ex.Unsound) > 0 {
		c.SoftUndecided("NASEncode could not be evaluated abstractly (%v %v)", err, ex.Unsound)
		return nil, false
	}
	var res []nasEncOutcome
	for _, o := range outs {
		r := nasEncOutcome{o: o}
		for i := range o.Trace {
			switch o.Trace[i].Callee {
			case fnEncrypt:
				r.enc = &o.Trace[i]
			case fnMac:
				r.mac = &o.Trace[i]
			}
		}
		res = append(res, r)
	}
	return res, true
}

func r6argsX(c *core.Ctx) {
	const R = "R6.args"
	c.Rule(R, "NASEncode: algorithm, key, COUNT, BEARER, DIRECTION and payload arguments of NASEncrypt/NASMacCalculate; MAC input and output layout")
	fn := mustFunc(c, pTglib, "NASEncode")
	outs, ok := nasEncodeEval(c)
	c.Check(mustConst(c, pSec, "Bearer3GPP") == 1, R, "security.Bearer3GPP", token.NoPos, "=1", "Bearer3GPP must be 1 (TS 33.501 6.4.3.1)")
	c.Check(mustConst(c, pSec, "DirectionUplink") == 0, R, "security.DirectionUplink", token.NoPos, "=0", "DirectionUplink must be 0")
	c.Check(mustConst(c, pSec, "DirectionDownlink") == 1, R, "security.DirectionDownlink", token.NoPos, "=1", "DirectionDownlink must be 1")
	if !ok {
		return
	}
	count := "p0.ULCount.count"
	isSrc := func(v core.AVal, name string, w int) bool {
		return v.K == core.AInt && len(v.Bits) == w && v.Bits.IsCopy(w-1, 0, name, 0)
	}
	isKey := func(v core.AVal, name string) bool {
		if v.K != core.AAgg || len(v.Elems) != 16 {
			return false
		}
		for i, e := range v.Elems {
			if !isSrc(e, fmt.Sprintf("%s[%d]", name, i), 8) {
				return false
			}
		}
		return true
	}
	// the COUNT in force on a path: the stored one, or 0 after the reset of a new context
	isCount := func(v core.AVal, reset bool) bool {
		if reset {
			k, ok := v.ConstVal()
			return ok && k == 0
		}
		// Count.Get() hands out the 24 significant bits of the stored field
		return v.K == core.AInt && len(v.Bits) == 32 && v.Bits.IsCopy(23, 0, count, 0) && (v.Bits.IsConst(31, 24, 0) || v.Bits.IsCopy(31, 24, count, 24))
	}
	isConst := func(v core.AVal, k uint64) bool { x, ok := v.ConstVal(); return ok && x == k }
	type verdict struct {
		ok   bool
		got  string
		seen bool
	}
	res := map[string]*verdict{}
	note := func(key string, ok bool, got string) {
		v := res[key]
		if v == nil {
			v = &verdict{ok: true}
			res[key] = v
		}
		v.seen = true
		if !ok {
			v.ok = false
			v.got = got
		}
	}
	nProt := 0
	for _, r := range outs {
		o := r.o
		success := len(o.Ret) == 2 && (o.Ret[1].K == core.ANil || (o.Ret[1].K == core.AUnknown && o.Nils[o.Ret[1].Path]))
		if !success || r.mac == nil || o.Panicked {
			continue
		}
		nProt++
		reset := false
		if k, isK := r.mac.Args[2].ConstVal(); isK && k == 0 {
			reset = true // decided below against the new-context flag by R6.once; here only consistency
		}
		sqnOK := func(b core.BitVec) bool {
			if reset {
				return b != nil && b.IsConst(7, 0, 0)
			}
			return b != nil && len(b) == 8 && b.IsCopy(7, 0, count, 0)
		}
		if r.enc != nil {
			a := r.enc.Args
			note("NASEncrypt:arg:AlgoID", isSrc(a[0], "p0.CipheringAlg", 8), core.ArgName(a[0]))
			note("NASEncrypt:arg:Key", isKey(a[1], "p0.KnasEnc"), core.ArgName(a[1]))
			note("NASEncrypt:arg:Count", isCount(a[2], reset), core.ArgName(a[2]))
			note("NASEncrypt:arg:Bearer", isConst(a[3], 1), core.ArgName(a[3]))
			note("NASEncrypt:arg:Direction", isConst(a[4], 0), core.ArgName(a[4]))
			note("NASEncrypt:arg:payload", a[5].K == core.ASlice && a[5].Path == "plain" && a[5].Lo == 0 && a[5].Len < 0, core.ArgName(a[5]))
		}
		a := r.mac.Args
		note("NASMacCalculate:arg:AlgoID", isSrc(a[0], "p0.IntegrityAlg", 8), core.ArgName(a[0]))
		note("NASMacCalculate:arg:Key", isKey(a[1], "p0.KnasInt"), core.ArgName(a[1]))
		note("NASMacCalculate:arg:Count", isCount(a[2], reset), core.ArgName(a[2]))
		note("NASMacCalculate:arg:Bearer", isConst(a[3], 1), core.ArgName(a[3]))
		note("NASMacCalculate:arg:Direction", isConst(a[4], 0), core.ArgName(a[4]))
		// MAC input = SQN || payload as it is after ciphering
		wantVer := 0
		if r.enc != nil {
			wantVer = 1
		}
		in := a[5]
		inOK := in.K == core.ASlice && in.Lo == 0
		desc := core.ArgName(in)
		if inOK {
			t, has := r.mac.Mem.Tail(in.Path)
			b0 := r.mac.Mem.Load(in.Path+"[0]", nil)
			inOK = has && t.From == 1 && t.Src == "plain" && t.SrcLo == 0 && t.Ver == wantVer && sqnOK(b0.Bits)
			desc = fmt.Sprintf("octet 0 = %s, rest = %+v (payload version wanted %d)", b0, t, wantVer)
		}
		note("NASMacCalculate:arg:payload", inOK, desc)
		// output = EPD || header type || MAC || SQN || payload
		out := o.Ret[0]
		outOK := out.K == core.ASlice && out.Lo == 0
		odesc := core.ArgName(out)
		if outOK {
			cell := func(i int) core.BitVec { return o.Mem.Load(fmt.Sprintf("%s[%d]", out.Path, i), nil).Bits }
			t, has := o.Mem.Tail(out.Path)
			outOK = has && t.From == 7 && t.Src == "plain" && t.SrcLo == 0 && t.Ver == wantVer &&
				cell(0) != nil && cell(0).IsCopy(7, 0, "p1.SecurityHeader.ProtocolDiscriminator", 0) &&
				cell(1) != nil && cell(1).IsCopy(7, 0, "p1.SecurityHeader.SecurityHeaderType", 0) && sqnOK(cell(6))
			for i := 0; i < 4 && outOK; i++ {
				if b := cell(2 + i); b == nil || !b.IsCopy(7, 0, fmt.Sprintf("MAC[%d]", i), 0) {
					outOK = false
				}
			}
			var cs []string
			for i := 0; i < 7; i++ {
				cs = append(cs, cell(i).Describe())
			}
			odesc = fmt.Sprintf("octets 0..6 = %s; rest = %+v", strings.Join(cs, " | "), t)
		}
		note("output-layout", outOK, odesc)
	}
	if nProt == 0 {
		c.Fail(R, "tglib.NASEncode:NASMacCalculate:count", fn.Pos(), "no successful path computes a MAC")
		return
	}
	for _, k := range []string{"NASEncrypt:arg:AlgoID", "NASEncrypt:arg:Key", "NASEncrypt:arg:Count", "NASEncrypt:arg:Bearer", "NASEncrypt:arg:Direction", "NASEncrypt:arg:payload",
		"NASMacCalculate:arg:AlgoID", "NASMacCalculate:arg:Key", "NASMacCalculate:arg:Count", "NASMacCalculate:arg:Bearer", "NASMacCalculate:arg:Direction", "NASMacCalculate:arg:payload", "output-layout"} {
		v := res[k]
		key := "tglib.NASEncode:" + k
		if strings.Contains(k, ":arg:") {
			key = "tglib.NASEncode:security." + k
		}
		if v == nil || !v.seen {
			if strings.HasPrefix(k, "NASEncrypt") {
				c.Fail(R, "tglib.NASEncode:security.NASEncrypt:count", fn.Pos(), "expected exactly one call of security.NASEncrypt, found 0")
				break
			}
			continue
		}
		want := map[string]string{"AlgoID": "the UE's algorithm id", "Key": "the UE's NAS key", "Count": "the uplink COUNT in force", "Bearer": "1", "Direction": "0 (uplink)", "payload": "the encoded message (SQN first for the MAC)"}[k[strings.LastIndexByte(k, ':')+1:]]
		if k == "output-layout" {
			c.Check(v.ok, R, key, fn.Pos(), "EPD || header type || MAC || SQN || payload", "protected output is %s, want EPD || header type || MAC || SQN || payload", v.got)
			continue
		}
		c.Check(v.ok, R, key, fn.Pos(), want, "%s is %s, want %s", k, v.got, want)
	}
}

// countEffectX: the value of receiver.count after a call of a Count method, read off the
// abstract final memory (helpers entered, conditional updates if-converted). The incremented
// counter — a carry chain, not a bit placement — appears as the source "count+1".
func countEffectX(c *core.Ctx, fn *ssa.Function) (core.BitVec, bool) {
	ex := core.NewExec()
	ex.Merge = true
	outs, err := ex.Run(fn, core.DefaultArgs(fn), nil)
	if err != nil || len(outs) != 1 || len(ex.Unsound) > 0 || outs[0].Panicked {
		return countEffect(c, fn, 0)
	}
	v := outs[0].Mem.Load("p0.count", nil)
	if v.K != core.AInt {
		return core.SourceVec("p0.count", 32), true
	}
	out := make(core.BitVec, len(v.Bits))
	for i, b := range v.Bits {
		if b.Kind == core.BSrc && b.More == "" && (b.Src == "(1+p0.count)" || b.Src == "(1+p0.count<23:0>)") {
			b.Src = "count+1"
		}
		if b.Kind == core.BMix {
			return countEffect(c, fn, 0)
		}
		out[i] = b
	}
	return out, true
}

// isNewCountMethod: a method of security.Count that is not one of the accessors the rules
// know by name (a helper added to the type).
func isNewCountMethod(f *ssa.Function) bool {
	n := core.FuncName(f)
	if !strings.HasPrefix(n, pSec+".Count.") || len(f.Blocks) == 0 {
		return false
	}
	switch n {
	case fnCountGet, fnCountSQN, fnCountOvf, fnCountAddOne, fnCountSet, fnCountSetSQN, fnCountSetOvf:
		return false
	}
	return true
}

// r6pathsX: R6.once, R6.cipher-iff and R6.plain read off the evaluator's outcomes of NASEncode
// (helpers entered, so a step moved into a helper - and the error it hands back - is the same
// step). Per outcome the path's facts say which case it is (context available, new context,
// header type), its trace says whether the payload was ciphered and a MAC computed, and the
// final memory says what happened to the counters: "advanced exactly once after the last read"
// is "the stored uplink COUNT ends as (COUNT handed to the MAC) + 1"; "never advanced on an error
// path" is "on a path that returns an error it ends as it was (or as the reset made it)".
// Returns false when the evaluation is not usable (the path rule of c06.go runs then).
func r6pathsX(c *core.Ctx) bool {
	const R1, R2, R3 = "R6.once", "R6.cipher-iff", "R6.plain"
	fn := mustFunc(c, pTglib, "NASEncode")
	outs, ok := nasEncodeEval(c)
	if !ok || len(outs) == 0 {
		return false
	}
	c.Rule(R1, "NASEncode: on every protected success path COUNT is read unchanged and advanced exactly once after the last read; reset iff new context; never advanced on an error path")
	c.Rule(R2, "NASEncode: NASEncrypt is executed exactly on the paths where the header type is 2 or 4")
	c.Rule(R3, "NASEncode: without security context the plain encoding is returned and no counter/key is touched")
	const ul, dl, sht = "p0.ULCount.count", "p0.DLCount.count", "p1.SecurityHeader.SecurityHeaderType"
	a := newAgg(c, R1)
	a2 := newAgg(c, R2)
	a3 := newAgg(c, R3)
	pos := fn.Pos()
	boolFact := func(o core.AOutcome, name string) int {
		if f, has := o.Facts[name]; has && f[0] == f[1] {
			return int(f[0])
		}
		return -1
	}
	count24 := func(v core.AVal) string {
		if v.K != core.AInt || len(v.Bits) != 32 {
			return nm(v)
		}
		if k, isK := v.ConstVal(); isK {
			return fmt.Sprint(k)
		}
		// the 24 significant bits
		low := core.AVal{K: core.AInt, Bits: append(append(core.BitVec{}, v.Bits[:24]...), core.ConstBits(0, 8)...)}
		return nm(low)
	}
	untouchedKeys := func(o core.AOutcome) bool {
		for _, k := range o.Mem.Cells("p0.Knas") {
			_ = k
			return false
		}
		return true
	}
	nProt, nPlain, nErr := 0, 0, 0
	for _, r := range outs {
		o := r.o
		if o.Panicked {
			continue
		}
		if len(o.Ret) != 2 {
			a.check(false, "tglib.NASEncode:shape", pos, "", "NASEncode does not return (payload, error)")
			continue
		}
		ctx, nw := boolFact(o, "p2"), boolFact(o, "p3")
		if os.Getenv("VERIF_DEBUG") != "" {
			fmt.Printf("DEBUG r6pathsX ctx=%d new=%d ret1=%s nils=%v\n", ctx, nw, nm(o.Ret[1]), o.Nils)
		}
		errV := o.Ret[1]
		isErr := errV.NonNil || (errV.K == core.AUnknown && errV.Path != "" && !o.Nils[errV.Path] && func() bool { _, known := o.Nils[errV.Path]; return known }())
		success := errV.K == core.ANil || (errV.K == core.AUnknown && o.Nils[errV.Path])
		ulEnd := o.Mem.Load(ul, types.Typ[types.Uint32])
		dlEnd := o.Mem.Load(dl, types.Typ[types.Uint32])
		ulSame := nm(ulEnd) == ul
		dlSame := nm(dlEnd) == dl
		// the counter is its 24 significant bits (the top octet of the stored word is masked off by Get)
		ulZero := count24(ulEnd) == "0"
		dlZero := count24(dlEnd) == "0"
		_ = dlZero
		switch {
		case ctx == 0:
			nPlain++
			okPlain := r.enc == nil && r.mac == nil && ulSame && dlSame && untouchedKeys(o)
			okRet := o.Ret[0].K == core.ASlice && o.Ret[0].Path == "plain" && o.Ret[0].Lo == 0 && errV.K == core.AUnknown && errV.Path == "plainerr"
			a3.check(okPlain, "tglib.NASEncode:plain:no-security-state", pos, "no cipher, no MAC, counters and keys untouched", "without a security context NASEncode must not touch counters or keys nor cipher/MAC the message (uplink COUNT ends as %s, downlink as %s)", count24(ulEnd), count24(dlEnd))
			a3.check(okRet, "tglib.NASEncode:plain:returns-plain-encoding", pos, "returns PlainNasEncode's result and error", "without a security context NASEncode must return PlainNasEncode's result; returns (%s, %s)", clip(nm(o.Ret[0])), clip(nm(errV)))
		case isErr || (!success && errV.K == core.AUnknown):
			if errV.K == core.AUnknown && !isErr {
				// an error result whose nil-ness the path never established: it is returned as it is
				// (PlainNasEncode's error on the plain path is handled above)
			}
			nErr++
			nAddE := 0
			for i := range o.Trace {
				ev := &o.Trace[i]
				if ev.Callee == pSec+".Count.AddOne" && len(ev.Args) > 0 && ev.Args[0].K == core.APtr && ev.Args[0].Path == "p0.ULCount" {
					nAddE++
				}
			}
			okE := nAddE == 0 && (ulSame || (nw == 1 && ulZero) || count24(ulEnd) == ul+"<23:0>")
			if os.Getenv("VERIF_DEBUG") != "" {
				fmt.Printf("DEBUG r6pathsX err outcome ulEnd=%s ulSame=%v ulZero=%v nw=%d okE=%v\n", nm(ulEnd), ulSame, ulZero, nw, okE)
			}
			a.check(okE, "tglib.NASEncode:error-paths:count-not-advanced", pos, "on every path that returns an error the uplink COUNT is as it was (or as the new-context reset left it)", "uplink COUNT advanced on an error path: it ends as %s on a path that returns %s", count24(ulEnd), clip(nm(errV)))
		case success && ctx == 1:
			if r.mac == nil {
				a.check(false, "tglib.NASEncode:protected:mac", pos, "", "a protected success path computes no MAC")
				continue
			}
			nProt++
			used := r.mac.Args[2]
			usedK, usedConst := used.ConstVal()
			// the counter operations of the path, in order
			var ops []string
			macAt, lastRead, firstRead, nAdd, addAt, ulSet, dlSet := -1, -1, -1, 0, -1, -1, -1
			for i := range o.Trace {
				ev := &o.Trace[i]
				if ev.Callee == fnMac {
					macAt = len(ops)
					ops = append(ops, "mac")
					continue
				}
				if !strings.HasPrefix(ev.Callee, pSec+".Count.") || len(ev.Args) == 0 || ev.Args[0].K != core.APtr {
					continue
				}
				which := ""
				switch ev.Args[0].Path {
				case "p0.ULCount":
					which = "ul"
				case "p0.DLCount":
					which = "dl"
				default:
					continue
				}
				m := strings.TrimPrefix(ev.Callee, pSec+".Count.")
				// only the calls NASEncode (or a helper of tglib) makes itself: the Count methods' own internals are R6.count's
				if par := ev.Site.Parent(); par != nil && par.Pkg != nil && par.Pkg.Pkg.Path() == pSec {
					continue
				}
				switch {
				case which == "ul" && (m == "Get" || m == "SQN" || m == "Overflow"):
					if firstRead < 0 {
						firstRead = len(ops)
					}
					lastRead = len(ops)
				case which == "ul" && m == "AddOne":
					nAdd++
					addAt = len(ops)
				case m == "Set":
					z := len(ev.Args) == 3
					for _, x := range ev.Args[1:] {
						if k, isK := x.ConstVal(); !isK || k != 0 {
							z = false
						}
					}
					if z && which == "ul" {
						ulSet = len(ops)
					} else if z {
						dlSet = len(ops)
					} else {
						m = "Set(non-zero)"
					}
				}
				ops = append(ops, which+"."+m)
			}
			desc := strings.Join(ops, " ")
			var errs []string
			if nAdd != 1 {
				errs = append(errs, fmt.Sprintf("ULCount.AddOne executed %d times (want exactly 1)", nAdd))
			} else if addAt < lastRead {
				errs = append(errs, "ULCount advanced before its last read (SQN/cipher/MAC would use different COUNTs)")
			} else if macAt >= 0 && addAt < macAt {
				errs = append(errs, "ULCount advanced before the MAC is computed")
			}
			for _, op := range ops {
				switch op {
				case "ul.SetSQN", "ul.SetOverflow", "ul.Set(non-zero)", "dl.AddOne", "dl.SetSQN", "dl.SetOverflow", "dl.Set(non-zero)":
					errs = append(errs, "a counter is changed other than by the reset of a new context and the one advance: "+op)
				}
			}
			a.check(len(errs) == 0, "tglib.NASEncode:protected:count-advanced-once", pos, "one ULCount.AddOne, after the last read of COUNT and after the MAC, on every protected success path", "%s (%s)", strings.Join(errs, "; "), desc)
			switch nw {
			case 1:
				okNew := ulSet >= 0 && dlSet >= 0 && (firstRead < 0 || (ulSet < firstRead && dlSet < firstRead)) && usedConst && usedK == 0
				why := "both counters must be Set(0,0) before COUNT is read"
				if ulSet >= 0 && firstRead >= 0 && ulSet > firstRead {
					why = "counters reset after COUNT was already read"
				}
				a.check(okNew, "tglib.NASEncode:protected:new-context-resets", pos, "new context: both counters Set(0,0) before the first read, COUNT 0 used", "new security context: %s (%s; the MAC uses COUNT %s)", why, desc, clip(count24(used)))
			case 0:
				a.check(ulSet < 0 && dlSet < 0 && !usedConst && dlSame, "tglib.NASEncode:protected:current-context-keeps", pos, "current context: no reset, the stored COUNT is used, the downlink counter untouched", "counter reset without a new security context (COUNT reuse under the same key): %s; the MAC uses %s, downlink ends as %s", desc, clip(count24(used)), clip(count24(dlEnd)))
			default:
				a.check(false, "tglib.NASEncode:protected:new-context-branch", pos, "", "a protected path does not depend on newSecurityContext")
			}
			a.check(untouchedKeys(o), "tglib.NASEncode:protected:keys-untouched", pos, "NAS keys not written", "NASEncode writes a NAS key")
			// cipher-iff: which header types can take this path?
			var types []int64
			for _, t := range []int64{1, 2, 3, 4} {
				feasible := true
				if f, has := o.Facts[sht]; has && (uint64(t) < f[0] || uint64(t) > f[1]) {
					feasible = false
				}
				for _, x := range o.Excl[sht] {
					if x == t {
						feasible = false
					}
				}
				if feasible {
					types = append(types, t)
				}
			}
			ciph, clear := 0, 0
			for _, t := range types {
				if t == 2 || t == 4 {
					ciph++
				} else {
					clear++
				}
			}
			ciphered := r.enc != nil
			okC := len(types) == 0 || (ciphered && clear == 0) || (!ciphered && ciph == 0)
			a2.check(okC, "tglib.NASEncode:cipher-iff-header-type-2-or-4", pos, "NASEncrypt runs exactly on the paths of header types 2 and 4", "the payload is%s ciphered on a path taken for header types %v (types 2/4 must be ciphered, 1/3 must go out in clear)", map[bool]string{true: "", false: " NOT"}[ciphered], types)
		default:
			a.check(false, "tglib.NASEncode:shape", pos, "", "a path of NASEncode could not be classified (context flag %d, error %s)", ctx, clip(nm(errV)))
		}
	}
	a.check(nProt > 0 && nPlain > 0, "tglib.NASEncode:cases", pos, fmt.Sprintf("%d protected, %d plain, %d error outcomes", nProt, nPlain, nErr), "expected protected and plain paths, found %d protected, %d plain, %d error", nProt, nPlain, nErr)
	a.flush()
	a2.flush()
	a3.flush()
	c.Note("NASEncode: %d evaluated outcomes (%d protected success, %d plain, %d error)", len(outs), nProt, nPlain, nErr)
	return true
}
