#!/bin/bash
# import_seed.sh <worktree> <k> <seed-id> [props...] : copy <worktree>/SEED/<k> to /verif/seeded/<seed-id>,
# confirm it independently (tools/confirm_seed.sh), and run the quick checks of the listed properties
# (default: the seed's own property) on a patched scratch copy. Prints a summary; writes
# /verif/seeded/<seed-id>/confirm.json (used later for meta.json).
set -u
WT=$1; K=$2; ID=$3; shift 3
PROP=${ID%-*}
DST=/verif/seeded/$ID
rm -rf "$DST"; mkdir -p "$DST"
cp -r "$WT/SEED/$K/." "$DST/"
chmod +x "$DST/run_demo.sh"
/verif/tools/confirm_seed.sh "$DST" > "$DST/confirm.json"; rc=$?
echo "[$ID confirm rc=$rc] $(python3 -c "import json;d=json.load(open('$DST/confirm.json'));print({k:d[k] for k in ['unpatched_demo_passes','patch_applies','patched_builds','patched_tests_pass','patched_demo_fails']})")"
[ $# -eq 0 ] && set -- $PROP
/verif/tools/tryseed.sh "$1" "$DST/patch.diff" "${@:2}" 2>&1 | grep -v '^  ' | cut -c1-300 | head -20
