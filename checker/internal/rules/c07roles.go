package rules

import (
	"golang.org/x/tools/go/ssa"

	"stgverif/internal/core"
)

// The two LFSR clocking operations of SNOW 3G are found by their role, not by name: the function of
// package snow3g that InitSnow3g calls (besides clockFsm) and that - itself or through callees in the
// package - writes the LFSR is the initialisation-mode clock; the one GenerateKeystream calls is the
// keystream-mode clock. They may be one function taking the FSM output as a parameter (clockLfsr(F),
// called with 0 in keystream mode).

type snowClocks struct {
	init, ks *ssa.Function
	// ksZeroArg: the keystream-mode clock is a one-parameter function handed the constant 0
	ksZeroArg bool
}

var snowClocksCache = map[*core.Ctx]*snowClocks{}

func writesLfsr(f *ssa.Function, depth int) bool {
	if f == nil || depth > 3 || len(f.Blocks) == 0 {
		return false
	}
	for _, b := range f.Blocks {
		for _, in := range b.Instrs {
			switch x := in.(type) {
			case *ssa.Store:
				if g := rootGlobal(x.Addr); g != nil && g.Name() == "lfsr" {
					return true
				}
			case *ssa.Call:
				if bi, isB := x.Call.Value.(*ssa.Builtin); isB && bi.Name() == "copy" && len(x.Call.Args) > 0 {
					if g := rootGlobal(x.Call.Args[0]); g != nil && g.Name() == "lfsr" {
						return true
					}
				}
				if cal := x.Call.StaticCallee(); cal != nil && fnPkgPath(cal) == pSnow && cal.Name() != "clockFsm" {
					if writesLfsr(cal, depth+1) {
						return true
					}
					// the register handed to a method by address (lfsr.shift(v) with a pointer receiver) that stores through it
					for _, a := range x.Call.Args {
						if g := rootGlobal(a); g != nil && g.Name() == "lfsr" && hasStore(cal) {
							return true
						}
					}
				}
			}
		}
	}
	return false
}

func snowClockFns(c *core.Ctx) *snowClocks {
	if r, ok := snowClocksCache[c]; ok {
		return r
	}
	r := &snowClocks{}
	find := func(caller string) (*ssa.Function, ssa.CallInstruction) {
		fn := c.P.Func(pSnow, caller)
		if fn == nil {
			return nil, nil
		}
		var got *ssa.Function
		var site ssa.CallInstruction
		for _, ci := range core.Calls(fn) {
			cal := ci.Common().StaticCallee()
			if cal == nil || fnPkgPath(cal) != pSnow || cal.Name() == "clockFsm" || !writesLfsr(cal, 0) {
				continue
			}
			if got != nil && got != cal {
				return nil, nil // more than one candidate: not decided by role
			}
			got, site = cal, ci
		}
		return got, site
	}
	r.init, _ = find("InitSnow3g")
	var ksSite ssa.CallInstruction
	r.ks, ksSite = find("GenerateKeystream")
	// not found by role: the reference tree's names, when they exist
	if r.init == nil {
		r.init = c.P.Func(pSnow, "lfsrInitialisationMode")
	}
	if r.ks == nil {
		r.ks = c.P.Func(pSnow, "lfsrKeystreamMode")
	}
	if r.ks != nil && len(r.ks.Params) == 1 && ksSite != nil && len(ksSite.Common().Args) == 1 {
		if k, isK := core.ConstInt(ksSite.Common().Args[0]); isK && k == 0 {
			r.ksZeroArg = true
		}
	}
	snowClocksCache[c] = r
	return r
}

func hasStore(f *ssa.Function) bool {
	for _, b := range f.Blocks {
		for _, in := range b.Instrs {
			switch x := in.(type) {
			case *ssa.Store:
				return true
			case *ssa.Call:
				if bi, isB := x.Call.Value.(*ssa.Builtin); isB && bi.Name() == "copy" {
					return true
				}
			}
		}
	}
	return false
}
