package rules

import (
	"fmt"
	"go/constant"
	"go/types"
	"sort"
	"strings"

	"golang.org/x/tools/go/ssa"

	"stgverif/internal/core"
)

// Evaluator-based identifier conversion rules (DESIGN §11.8). net.ParseIP / To4 / To16 / IPv4 /
// IP.String are summarised as named values of the right length; everything the conversion code
// itself does (which octets go where, which bit length is announced) is read off the result.

func netSummaries(ev *core.AEvent, m *core.AMem) (core.AVal, bool) {
	name := func(v core.AVal) string {
		if v.K == core.ASlice && v.Lo == 0 && (strings.HasPrefix(v.Path, "ip(") || strings.HasPrefix(v.Path, "to4(") || strings.HasPrefix(v.Path, "to16(") || strings.HasPrefix(v.Path, "ipv4(")) {
			return v.Path // a value of the net package, whole
		}
		if v.K == core.ASlice && v.Lo >= 0 && v.Len >= 0 {
			return strings.Join(sliceContent(m, v), ",")
		}
		return core.ArgName(v)
	}
	an := func(v core.AVal) string {
		if v.K == core.ASlice && v.Lo == 0 {
			return v.Path
		}
		return core.ArgName(v)
	}
	mk := func(path string, n int) core.AVal {
		return core.AVal{K: core.ASlice, Path: path, Lo: 0, Len: n, NonNil: true}
	}
	switch ev.Callee {
	case "net.ParseIP":
		if len(ev.Args) == 1 {
			return mk("ip("+core.ArgName(ev.Args[0])+")", 16), true
		}
	case "net.IP.To4":
		if len(ev.Args) == 1 {
			return mk("to4("+an(ev.Args[0])+")", 4), true
		}
	case "net.IP.To16":
		if len(ev.Args) == 1 {
			return mk("to16("+an(ev.Args[0])+")", 16), true
		}
	case "net.IPv4":
		if len(ev.Args) == 4 {
			var as []string
			for _, a := range ev.Args {
				as = append(as, core.ArgName(a))
			}
			return mk("ipv4("+strings.Join(as, ",")+")", 16), true
		}
	case "net.IP.String":
		if len(ev.Args) == 1 {
			return core.AVal{K: core.AStr, Path: "str(" + name(ev.Args[0]) + ")", Lo: 0, Len: -1}, true
		}
	}
	if strings.HasPrefix(ev.Callee, "github.com/sirupsen/logrus.") {
		return core.AVal{K: core.ATuple}, true
	}
	return core.AVal{}, false
}

// bitStringOf digs the BitString (Bytes, BitLength) out of a TransportLayerAddress value.
func bitStringOf(v core.AVal) (core.AVal, core.AVal, bool) {
	if v.K != core.AAgg || len(v.Elems) != 1 {
		return core.AVal{}, core.AVal{}, false
	}
	bs := v.Elems[0]
	if bs.K != core.AAgg || len(bs.Elems) != 2 {
		return core.AVal{}, core.AVal{}, false
	}
	return bs.Elems[0], bs.Elems[1], true
}

func r17ipX(c *core.Ctx) {
	const R = "R17.ip"
	c.Rule(R, "IPAddressToNgap: 32/128/160 bits with 4/16/20 octets, IPv4 first; IPAddressToString: same three cases, in-range indexing, IPv6 part from octet 4")
	// ---- text → NGAP
	g := mustFunc(c, pNgapC, "IPAddressToNgap")
	{
		ex := core.NewExec()
		ex.OnCall = netSummaries
		outs, err := ex.Run(g, core.DefaultArgs(g), nil)
		if err != nil || len(ex.Unsound) > 0 {
			c.SoftUndecided("R17.ip: IPAddressToNgap could not be evaluated (%v %v)", err, ex.Unsound)
		} else {
			seen := map[int64]bool{}
			for _, o := range outs {
				if o.Panicked || len(o.Ret) != 1 {
					continue
				}
				e4, k4 := o.Nils["empty:p0"]
				e6, k6 := o.Nils["empty:p1"]
				bytes, bl, ok := bitStringOf(o.Ret[0])
				if !ok {
					c.SoftUndecided("R17.ip: IPAddressToNgap does not return a TransportLayerAddress value the evaluator can take apart")
					break
				}
				n, isK := bl.ConstVal()
				bits := int64(n)
				if !isK {
					bits = -1
				}
				content := sliceContent(o.Mem, bytes)
				if bytes.K == core.ANil {
					content = nil
				}
				var want []string
				wantBits := int64(0)
				has4, has6 := k4 && !e4, k6 && !e6
				if !k4 || !k6 {
					// a path that did not look at both strings: it must not build an address from the one it ignored
					if bits > 0 {
						c.Fail(R, fmt.Sprintf("ngapConvert.IPAddressToNgap:%d-bit", bits), g.Pos(), "a %d-bit address is produced on a path that does not test both address strings for emptiness", bits)
					}
					continue
				}
				if has4 {
					for i := 0; i < 4; i++ {
						want = append(want, fmt.Sprintf("to4(ip(p0))[%d]", i))
					}
					wantBits += 32
				}
				if has6 {
					for i := 0; i < 16; i++ {
						want = append(want, fmt.Sprintf("to16(ip(p1))[%d]", i))
					}
					wantBits += 128
				}
				key := fmt.Sprintf("ngapConvert.IPAddressToNgap:%d-bit", wantBits)
				if wantBits == 0 {
					c.Check(bits == 0 && len(content) == 0, R, "ngapConvert.IPAddressToNgap:empty", g.Pos(), "no address → zero value", "without any address the zero value must be returned; returns %d bits, octets %v", bits, content)
					continue
				}
				seen[wantBits] = true
				desc := map[int64]string{32: "4 octets of the IPv4 address", 128: "16 IPv6 octets", 160: "4 IPv4 octets then 16 IPv6 octets"}[wantBits]
				c.Check(bits == wantBits && strings.Join(content, ",") == strings.Join(want, ","), R, key, g.Pos(), desc,
					"a %d-bit address (TS 38.414) must carry %s with BitLength %d; carries BitLength %d and octets %s", wantBits, desc, wantBits, bits, clip(strings.Join(content, ",")))
			}
			c.Check(seen[32] && seen[128] && seen[160], R, "ngapConvert.IPAddressToNgap:forms", g.Pos(), "32 / 128 / 160", "IPAddressToNgap must produce the three forms 32, 128 and 160 bits; produces %v", seen)
		}
	}
	// ---- NGAP → text: one run per legal (bit length, octet count)
	fn := mustFunc(c, pNgapC, "IPAddressToString")
	cases := map[int64]bool{}
	for _, t := range []struct {
		bits int64
		n    int
	}{{32, 4}, {128, 16}, {160, 20}} {
		ex := core.NewExec()
		ex.OnCall = netSummaries
		arg := core.AVal{K: core.AAgg, Elems: []core.AVal{{K: core.AAgg, Elems: []core.AVal{
			{K: core.ASlice, Path: "B", Lo: 0, Len: t.n, NonNil: true},
			{K: core.AInt, Bits: core.ConstBits(uint64(t.bits), 64)}}}}}
		outs, err := ex.Run(fn, []core.AVal{arg}, nil)
		key := fmt.Sprintf("ngapConvert.IPAddressToString:%d-bit", t.bits)
		if err != nil || len(outs) != 1 || len(ex.Unsound) > 0 {
			c.SoftUndecided("R17.ip: IPAddressToString could not be evaluated for a %d-bit address (%v, %d outcomes, %v)", t.bits, err, len(outs), ex.Unsound)
			continue
		}
		o := outs[0]
		if o.Panicked {
			c.Fail(R, key, fn.Pos(), "a %d-bit address of %d octets makes IPAddressToString index past the end of its octets (panic)", t.bits, t.n)
			continue
		}
		if len(o.Ret) != 2 {
			continue
		}
		cases[t.bits] = true
		octs := func(lo, hi int) string {
			var s []string
			for i := lo; i < hi; i++ {
				s = append(s, fmt.Sprintf("B[%d]", i))
			}
			return strings.Join(s, ",")
		}
		v4, v6 := core.ArgName(o.Ret[0]), core.ArgName(o.Ret[1])
		want4, want6 := `""`, `""`
		if t.bits != 128 {
			want4 = "str(ipv4(B[0],B[1],B[2],B[3]))"
		}
		if t.bits == 128 {
			want6 = "str(" + octs(0, 16) + ")"
		}
		if t.bits == 160 {
			want6 = "str(" + octs(4, 20) + ")"
		}
		norm := func(s string) string { // a string of the whole input object is the string of its octets
			if s == "str(B)" {
				return "str(" + octs(0, t.n) + ")"
			}
			if strings.HasPrefix(s, "str(B[") && strings.HasSuffix(s, ":])") {
				var k int
				fmt.Sscanf(s, "str(B[%d:])", &k)
				return "str(" + octs(k, t.n) + ")"
			}
			return s
		}
		v4, v6 = norm(v4), norm(v6)
		if t.bits == 160 {
			c.Check(v6 == want6, R, "ngapConvert.IPAddressToString:dual-stack-ipv6-part", fn.Pos(), "IPv6 = octets 4..len-1", "in the 160-bit case the IPv6 address must be octets 4..19 (the IPv4 address occupies octets 0..3); it is built from %s", clip(v6))
		}
		c.Check(v4 == want4 && v6 == want6, R, key, fn.Pos(), fmt.Sprintf("ipv4=%s ipv6=%s", want4, clip(want6)), "a %d-bit address must be printed as ipv4=%s ipv6=%s; is ipv4=%s ipv6=%s", t.bits, want4, clip(want6), clip(v4), clip(v6))
	}
	c.Check(len(cases) == 3, R, "ngapConvert.IPAddressToString:cases", fn.Pos(), "32 / 128 / 160", "IPAddressToString must handle exactly the bit lengths 32, 128 and 160 (TS 38.414); handled: %v", cases)
}

// r13ipX: IPAddressToNgap(ipv4, "") is the four octets of the address with bit length 32 (C13's clause).
func r13ipX(c *core.Ctx, R string) {
	g := mustFunc(c, pNgapC, "IPAddressToNgap")
	ex := core.NewExec()
	ex.OnCall = netSummaries
	args := core.DefaultArgs(g)
	args[1] = core.AVal{K: core.AStr, IsConst: true, Const: "", Len: 0}
	outs, err := ex.Run(g, args, nil)
	if err != nil || len(ex.Unsound) > 0 {
		c.SoftUndecided("%s: IPAddressToNgap could not be evaluated (%v %v)", R, err, ex.Unsound)
		return
	}
	found, detail := false, "no path for a non-empty IPv4 string"
	for _, o := range outs {
		if e4, k4 := o.Nils["empty:p0"]; !k4 || e4 || o.Panicked || len(o.Ret) != 1 {
			continue
		}
		bytes, bl, ok := bitStringOf(o.Ret[0])
		if !ok {
			continue
		}
		n, isK := bl.ConstVal()
		content := strings.Join(sliceContent(o.Mem, bytes), ",")
		found = isK && n == 32 && content == "to4(ip(p0))[0],to4(ip(p0))[1],to4(ip(p0))[2],to4(ip(p0))[3]"
		detail = fmt.Sprintf("BitLength %d, octets %s", n, clip(content))
	}
	c.Check(found, R, "ngapConvert.IPAddressToNgap:ipv4-only", g.Pos(), "Bytes = ParseIP(ipv4).To4()[0..3], BitLength 32 when ipv6Addr == \"\"", "IPAddressToNgap(ipv4, \"\") must yield exactly the four octets of the address with bit length 32: %s", detail)
}

var _ *ssa.Function

// r17snssaiX: SnssaiToNas read off the abstract result: [1, SST] exactly when the SD string is empty,
// otherwise [4, SST, the decoded SD octets].
func r17snssaiX(c *core.Ctx) {
	const R = "R17.snssai"
	c.Rule(R, "SnssaiToNas: SD empty ⇒ [1, SST]; otherwise [4, SST, SD octets]")
	fn := mustFunc(c, pNasC, "SnssaiToNas")
	ex := core.NewExec()
	ex.OnCall = func(ev *core.AEvent, _ *core.AMem) (core.AVal, bool) {
		if ev.Callee == "encoding/hex.DecodeString" {
			return core.OpaqueRet(ev), true
		}
		if strings.HasPrefix(ev.Callee, "github.com/sirupsen/logrus.") {
			return core.AVal{K: core.ATuple}, true
		}
		return core.AVal{}, false
	}
	outs, err := ex.Run(fn, core.DefaultArgs(fn), nil)
	if err != nil || len(ex.Unsound) > 0 {
		c.SoftUndecided("R17.snssai: SnssaiToNas could not be evaluated (%v %v)", err, ex.Unsound)
		return
	}
	const sd = "call:encoding/hex.DecodeString(p0.Sd)#0[0:]@0"
	okEmpty, okFull, okSel, seenEmpty, seenFull := true, true, true, false, false
	var other []string
	for _, o := range outs {
		if o.Panicked || len(o.Ret) != 1 {
			continue
		}
		got := strings.Join(sliceContent(o.Mem, o.Ret[0]), ",")
		empty, known := o.Nils["empty:p0.Sd"]
		if !known {
			okSel = false
			continue
		}
		hexFailed := false
		for n, isNil := range o.Nils {
			if strings.Contains(n, "hex.DecodeString") && !isNil {
				hexFailed = true
			}
		}
		switch {
		case empty:
			seenEmpty = true
			if got != "1,p0.Sst<7:0>" {
				okEmpty = false
				other = append(other, got)
			}
		case hexFailed:
			if got != "4,p0.Sst<7:0>" { // SD not hexadecimal: warning path
				other = append(other, got)
			}
		default:
			seenFull = true
			if got != "4,p0.Sst<7:0>,"+sd {
				okFull = false
				other = append(other, got)
			}
		}
	}
	c.Check(okEmpty && seenEmpty, R, "nasConvert.SnssaiToNas:sd-empty", fn.Pos(), "[1, SST]", "with an empty SD the result must be length 1 followed by SST; results are %v", other)
	c.Check(okFull && seenFull, R, "nasConvert.SnssaiToNas:sd-present", fn.Pos(), "[4, SST, SD...]", "with an SD the result must be length 4, SST, then the SD octets; results are %v", other)
	c.Check(okSel && seenEmpty && seenFull, R, "nasConvert.SnssaiToNas:selected-by-empty-sd", fn.Pos(), "short form iff Sd == \"\"", "the 1-octet-length form must be chosen exactly when the SD is empty")
}

// r16capX: GetUESecurityCapability read off the abstract result for every value of the two
// algorithm fields: bit (7-n) of octet 0 for ciphering algorithm n, of octet 1 for integrity
// algorithm n (TS 24.501 9.11.3.54), nothing else set — whatever switch, table of setters or
// arithmetic selects the bit.
func r16capX(c *core.Ctx, R string) {
	fn := mustFunc(c, pTglib, "RanUeContext.GetUESecurityCapability")
	ex := core.NewExec()
	ex.MaxStates = 2000
	args := core.DefaultArgs(fn)
	args[0] = core.NonNilArg(args[0])
	outs, err := ex.Run(fn, args, nil)
	if err != nil || len(ex.Unsound) > 0 {
		c.SoftUndecided("%s: GetUESecurityCapability could not be evaluated (%v %v)", R, err, ex.Unsound)
		return
	}
	type cell struct{ ok bool; bad string; seen bool }
	setters := []string{"SetEA0_5G", "SetEA1_128_5G", "SetEA2_128_5G", "SetEA3_128_5G", "SetIA0_5G", "SetIA1_128_5G", "SetIA2_128_5G", "SetIA3_128_5G"}
	res := map[string]*cell{}
	for _, s := range setters {
		res[s] = &cell{ok: true}
	}
	okLen, okOther := true, true
	undecided := ""
	for _, o := range outs {
		if o.Panicked || len(o.Ret) != 1 || o.Ret[0].K != core.APtr {
			continue
		}
		obj := o.Ret[0].Path
		buf := o.Mem.Load(obj+".Buffer", nil)
		ln := o.Mem.Load(obj+".Len", nil)
		if k, isK := ln.ConstVal(); !isK || k != 2 || buf.K != core.ASlice || buf.Len != 2 {
			okLen = false
			continue
		}
		for oct, field := range []string{"p0.CipheringAlg", "p0.IntegrityAlg"} {
			v := o.Mem.Load(fmt.Sprintf("%s[%d]", buf.Path, buf.Lo+oct), nil)
			if v.K != core.AInt {
				okOther = false
				continue
			}
			// every algorithm identity the path leaves possible: the octet, folded for that identity, is the
			// identity's bit (0..3) or clear (whatever selects it: a switch, a table, 0x80 >> alg under a guard)
			for _, a := range feasibleOf(o, field, allOctets) {
				got, okE := core.EvalBits(v.Bits, func(src string) (uint64, bool) { return uint64(a), src == field })
				if !okE {
					undecided = fmt.Sprintf("octet %d is %s, which does not fold on %s alone", oct, clip(v.String()), field)
					continue
				}
				if a > 3 {
					if got != 0 {
						okOther = false
					}
					continue
				}
				name := setters[4*oct+int(a)]
				res[name].seen = true
				if got != 1<<uint(7-a) {
					res[name].ok = false
					res[name].bad = fmt.Sprintf("octet %d is %#02x for algorithm %d, want %#02x", oct, got, a, 1<<uint(7-a))
				}
			}
		}
	}
	if undecided != "" {
		c.SoftUndecided("%s: GetUESecurityCapability: %s", R, undecided)
		return
	}
	c.Check(okLen, R, "tglib.GetUESecurityCapability:length", fn.Pos(), "Len 2, two capability octets", "the UE security capability must have Len 2 and a 2-octet buffer")
	for i, s := range setters {
		r := res[s]
		kind, n := "ciphering", i
		if i >= 4 {
			kind, n = "integrity", i-4
		}
		if !r.seen {
			c.Fail(R, "tglib.GetUESecurityCapability:"+s, fn.Pos(), "the capability for this algorithm is never advertised")
			continue
		}
		c.Check(r.ok, R, "tglib.GetUESecurityCapability:"+s, fn.Pos(), fmt.Sprintf("%s algorithm %d ⇒ bit %d", kind, n, 7-n), "%s algorithm %d must set exactly bit %d of its octet: %s", kind, n, 7-n, r.bad)
	}
	c.Check(okOther, R, "tglib.GetUESecurityCapability:other-algorithms", fn.Pos(), "no bit for an algorithm id without a capability bit", "an algorithm id above 3 must not set any capability bit")
}

// r16depEval: CreateUE interpreted up to NewRanUeContext; returns the names of the SUPI and
// RAN-UE-NGAP-ID arguments in the vocabulary sprintf(<format>|args…), atoi(p0), len(p0), p1.
func r16depEval(c *core.Ctx) (supi, ran string, ok bool) {
	fn := mustFunc(c, pStg, "CreateUE")
	ex := core.NewExec()
	var got []core.AEvent
	ex.OnCall = func(ev *core.AEvent, m *core.AMem) (core.AVal, bool) {
		switch ev.Callee {
		case "strconv.Atoi":
			if len(ev.Args) == 1 {
				return core.AVal{K: core.ATuple, Elems: []core.AVal{core.ArgNamed("atoi("+core.ArgName(ev.Args[0])+")", ev.Site.Type().(interface{ At(int) *types.Var }).At(0).Type()), core.NilArg()}}, true
			}
		case "fmt.Sprintf":
			if len(ev.Args) == 2 && ev.Args[0].K == core.AStr && ev.Args[0].IsConst {
				return core.AVal{K: core.AStr, Path: fmt.Sprintf("sprintf(%q|%s)", ev.Args[0].Const, strings.Join(sliceContent(m, ev.Args[1]), ",")), Lo: 0, Len: -1}, true
			}
		case pTglib + ".NewRanUeContext":
			got = append(got, *ev)
			return core.AVal{K: core.APtr, Path: "ue", NonNil: true}, true
		}
		return core.AVal{}, false
	}
	outs, err := ex.Run(fn, core.DefaultArgs(fn), nil)
	if err != nil || len(outs) == 0 || len(got) == 0 {
		return "", "", false
	}
	// every path must build the same identity
	supi, ran = core.ArgName(got[0].Args[0]), core.ArgName(got[0].Args[1])
	for _, ev := range got[1:] {
		if core.ArgName(ev.Args[0]) != supi || core.ArgName(ev.Args[1]) != ran {
			return "", "", false
		}
	}
	return supi, ran, true
}

// r18loadX: GetConfiguration interpreted with os.ReadFile and yaml.Unmarshal summarised: the bytes
// handed to the parser are those of config.yaml, the destination is the receiver, and after the
// parser nothing writes the configuration (helpers are entered, so a load()/readFile() split is
// the same thing).
func r18loadX(c *core.Ctx, R string) {
	fn := mustFunc(c, pStg, "Conf.GetConfiguration")
	ex := core.NewExec()
	ex.OnCall = func(ev *core.AEvent, m *core.AMem) (core.AVal, bool) {
		switch ev.Callee {
		case "os.ReadFile":
			if len(ev.Args) == 1 {
				return core.AVal{K: core.ATuple, Elems: []core.AVal{{K: core.ASlice, Path: "file(" + core.ArgName(ev.Args[0]) + ")", Lo: 0, Len: -1}, {K: core.AUnknown, Path: "readerr"}}}, true
			}
		case "gopkg.in/yaml.v2.Unmarshal":
			if len(ev.Args) == 2 && ev.Args[1].K == core.APtr {
				m.Havoc(ev.Args[1].Path)
			}
			return core.AVal{K: core.AUnknown, Path: "yamlerr"}, true
		}
		return core.AVal{}, false
	}
	// anything that is handed (part of) the configuration's address after it was parsed can rewrite it
	handed := ""
	parsed := false
	ex.Observe = func(ev *core.AEvent) {
		if ev.Callee == "gopkg.in/yaml.v2.Unmarshal" {
			parsed = true
			return
		}
		if !parsed || core.RepoFunc(ev.Fn) {
			return
		}
		for _, a := range ev.Args {
			if a.K == core.APtr && (a.Path == "p0" || strings.HasPrefix(a.Path, "p0.")) {
				handed = "configuration handed to " + shortName(ev.Callee)
			}
		}
	}
	ex.OnStore = func(path string) {
		if parsed && strings.HasPrefix(path, "p0.") {
			handed = "a later assignment to " + strings.TrimPrefix(path, "p0.")
		}
	}
	args := core.DefaultArgs(fn)
	args[0] = core.NonNilArg(args[0])
	outs, err := ex.Run(fn, args, nil)
	if handed != "" {
		c.Fail(R, "stgutg.GetConfiguration:no-post-processing", fn.Pos(), "the configuration is modified after parsing (%s): values no longer reach the procedures unchanged", handed)
		return
	}
	if err != nil || len(outs) == 0 {
		c.SoftUndecided("%s: GetConfiguration could not be evaluated (%v)", R, err)
		return
	}
	okUm, okPost := true, true
	why, post := "", ""
	for _, o := range outs {
		if o.Panicked {
			continue
		}
		var um *core.AEvent
		for i := range o.Trace {
			if o.Trace[i].Callee == "gopkg.in/yaml.v2.Unmarshal" {
				if um != nil {
					okUm, why = false, "the configuration is parsed twice"
				}
				um = &o.Trace[i]
			}
		}
		if um == nil {
			okUm, why = false, "a path returns without parsing the file"
			continue
		}
		a := um.Args
		if !(len(a) == 2 && a[0].K == core.ASlice && a[0].Path == `file("config.yaml")` && a[0].Lo == 0 && um.Mem.Untouched(a[0].Path) && a[1].K == core.APtr && a[1].Path == "p0") {
			okUm, why = false, fmt.Sprintf("yaml.Unmarshal receives (%s, %s)", core.ArgName(a[0]), core.ArgName(a[1]))
		}
		// after the parser: no cell of the receiver written, receiver not handed to anything that may write
		if cells := o.Mem.Cells("p0."); len(cells) > 0 {
			okPost, post = false, "store to "+cells[0]
		}
		if o.Mem.Version("p0") > um.Mem.Version("p0")+1 {
			okPost, post = false, "the configuration is handed to a callee that may rewrite it"
		}
	}
	c.Check(okUm, R, "stgutg.GetConfiguration:unmarshal", fn.Pos(), "yaml.Unmarshal(ReadFile(\"config.yaml\"), c)", "GetConfiguration must unmarshal the bytes of config.yaml into its receiver (%s)", why)
	c.Check(okPost, R, "stgutg.GetConfiguration:no-post-processing", fn.Pos(), "only yaml.Unmarshal writes the configuration", "the configuration is modified after parsing (%s): values no longer reach the procedures unchanged", post)
}

// r17pcoMarshalX: Marshal of a PCO with two containers; the output stream must be
// 0x80, then for each container ID (2 octets big-endian), length, contents.
func r17pcoMarshalX(c *core.Ctx, R string) {
	m := mustFunc(c, pNasC, "ProtocolConfigurationOptions.Marshal")
	mem := core.NewMem()
	// the list holds pointers to (or values of) container units: find out which from the field type
	var elemIsPtr bool
	if st, ok := m.Params[0].Type().Underlying().(*types.Pointer); ok {
		if s2, ok := st.Elem().Underlying().(*types.Struct); ok {
			for i := 0; i < s2.NumFields(); i++ {
				if s2.Field(i).Name() == "ProtocolOrContainerList" {
					if sl, ok := s2.Field(i).Type().Underlying().(*types.Slice); ok {
						_, elemIsPtr = sl.Elem().Underlying().(*types.Pointer)
					}
				}
			}
		}
	}
	mem.Store("p0.ProtocolOrContainerList", core.AVal{K: core.ASlice, Path: "list", Lo: 0, Len: 2, NonNil: true}, nil)
	var want []string
	want = append(want, "128")
	for i := 0; i < 2; i++ {
		unit := fmt.Sprintf("list[%d]", i)
		if elemIsPtr {
			unit = fmt.Sprintf("u%d", i)
			mem.Store(fmt.Sprintf("list[%d]", i), core.NonNilArg(core.AVal{K: core.APtr, Path: unit}), nil)
		}
		want = append(want, unit+".ProtocolOrContainerID<15:8>", unit+".ProtocolOrContainerID<7:0>", unit+".LengthOfContents", unit+".Contents[0:]@0")
	}
	ex := core.NewExec()
	ex.OnCall = func(ev *core.AEvent, _ *core.AMem) (core.AVal, bool) {
		if strings.HasPrefix(ev.Callee, "github.com/sirupsen/logrus.") {
			return core.AVal{K: core.ATuple}, true
		}
		return core.AVal{}, false
	}
	outs, err := ex.Run(m, []core.AVal{core.NonNilArg(core.AVal{K: core.APtr, Path: "p0"})}, mem)
	if err != nil || len(outs) != 1 || len(outs[0].Ret) != 1 || len(ex.Unsound) > 0 {
		c.SoftUndecided("%s: PCO.Marshal could not be evaluated to one path (%v, %d outcomes, %v)", R, err, len(outs), ex.Unsound)
		return
	}
	got := sliceContent(outs[0].Mem, outs[0].Ret[0])
	c.Check(strings.Join(got, ",") == strings.Join(want, ","), R, "nasConvert.PCO.Marshal:order", m.Pos(), "0x80, then per container ID, length, contents",
		"Marshal must write the header octet 0x80 and then ID, LengthOfContents, Contents of each container in that order; a PCO with two containers is written as [%s]", clip(strings.Join(got, ", ")))
}

// r17pcoAddX: every Add* helper appends one container whose LengthOfContents equals the number of
// content octets it carries (and the number the container kind needs).
func r17pcoAddX(c *core.Ctx, R string) {
	for _, t := range []struct {
		name string
		n    int
		id   uint64 // TS 24.008 table 10.5.154: container identifier of this option in its direction
	}{{"AddDNSServerIPv4AddressRequest", 0, 0x000d}, {"AddDNSServerIPv6AddressRequest", 0, 0x0003}, {"AddIPAddressAllocationViaNASSignallingUL", 0, 0x000a},
		{"AddDNSServerIPv4Address", 4, 0x000d}, {"AddDNSServerIPv6Address", 16, 0x0003}, {"AddIPv4LinkMTU", 2, 0x0010}} {
		f := c.P.Func(pNasC, "ProtocolConfigurationOptions."+t.name)
		if f == nil {
			continue
		}
		c.Analysed(pNasC + ".PCO." + t.name)
		ex := core.NewExec()
		ex.OnCall = netSummaries
		args := core.DefaultArgs(f)
		args[0] = core.NonNilArg(args[0])
		outs, err := ex.Run(f, args, nil)
		if err != nil || len(outs) == 0 || len(ex.Unsound) > 0 {
			c.SoftUndecided("%s: PCO.%s could not be evaluated (%v %v)", R, t.name, err, ex.Unsound)
			continue
		}
		ok := true
		detail := ""
		nOK := 0
		okID, gotID := true, ""
		okOwn, gotOwn := true, ""
		for _, o := range outs {
			if o.Panicked {
				continue
			}
			// the unit appended to the list: the last known element after the original list
			lst := o.Mem.Load("p0.ProtocolOrContainerList", nil)
			_, segs := o.Mem.Seq(lst.Path)
			if lst.K != core.ASlice || len(segs) == 0 || len(segs[len(segs)-1].Cells) != 1 {
				continue // a path that appends nothing (an address that does not parse)
			}
			u := segs[len(segs)-1].Cells[0]
			if u.K != core.APtr {
				ok, detail = false, "the appended element is not a container unit"
				continue
			}
			ln, isK := o.Mem.Load(u.Path+".LengthOfContents", types.Typ[types.Uint8]).ConstVal()
			cont := o.Mem.Load(u.Path+".Contents", types.NewSlice(types.Typ[types.Uint8]))
			n := 0
			if cont.K == core.ASlice {
				n = cont.Len
			}
			nOK++
			if cont.K == core.ASlice && n > 0 && !strings.HasPrefix(cont.Path, "local:") {
				okOwn, gotOwn = false, cont.Path
			}
			if id, isID := o.Mem.Load(u.Path+".ProtocolOrContainerID", types.Typ[types.Uint16]).ConstVal(); !isID || id != t.id {
				okID, gotID = false, fmt.Sprintf("%#04x", id)
				if !isID {
					gotID = "not a constant"
				}
			}
			if !isK || int(ln) != n || n != t.n {
				ok = false
				detail = fmt.Sprintf("LengthOfContents=%d, %d octets appended", ln, n)
			}
		}
		if nOK == 0 {
			c.SoftUndecided("%s: PCO.%s appends no container on any evaluated path", R, t.name)
			continue
		}
		c.Check(ok, R, "nasConvert.PCO."+t.name+":length", f.Pos(), fmt.Sprintf("LengthOfContents = %d = octets appended", t.n), "%s must set LengthOfContents to the %d content octets of its container kind (%s)", t.name, t.n, detail)
		if t.n > 0 {
			c.Check(okOwn, R, "nasConvert.PCO."+t.name+":own-copy", f.Pos(), "the container holds its own copy of the content octets",
				"%s must copy the content octets into the container: it stores a slice of %s, so the option changes when the caller reuses or modifies its argument before Marshal (what was added is no longer what is written)", t.name, gotOwn)
		}
		c.Check(okID, R, "nasConvert.PCO."+t.name+":id", f.Pos(), fmt.Sprintf("container identifier %#04x (TS 24.008 table 10.5.154)", t.id), "%s must label its container %#04x (TS 24.008 table 10.5.154); it stores %s", t.name, t.id, gotID)
	}
}

// T-24008-PCO: protocol / container identifiers of TS 24.008 table 10.5.154 (10.5.6.3), by the
// name nasMessage gives them (UL: MS to network, DL: network to MS).
var pcoIDs = map[string]int64{
	"PCSCFIPv6AddressRequestUL": 0x0001, "IMCNSubsystemSignalingFlagUL": 0x0002, "DNSServerIPv6AddressRequestUL": 0x0003, "NotSupportedUL": 0x0004,
	"MSSupportOfNetworkRequestedBearerControlIndicatorUL": 0x0005, "DSMIPv6HomeAgentAddressRequestUL": 0x0007, "DSMIPv6HomeNetworkPrefixRequestUL": 0x0008,
	"DSMIPv6IPv4HomeAgentAddressRequestUL": 0x0009, "IPAddressAllocationViaNASSignallingUL": 0x000a, "IPv4AddressAllocationViaDHCPv4UL": 0x000b,
	"PCSCFIPv4AddressRequestUL": 0x000c, "DNSServerIPv4AddressRequestUL": 0x000d, "MSISDNRequestUL": 0x000e, "IFOMSupportRequestUL": 0x000f,
	"IPv4LinkMTURequestUL": 0x0010, "MSSupportOfLocalAddressInTFTIndicatorUL": 0x0011, "PCSCFReSelectionSupportUL": 0x0012, "NBIFOMRequestIndicatorUL": 0x0013,
	"NBIFOMModeUL": 0x0014, "NonIPLinkMTURequestUL": 0x0015, "APNRateControlSupportIndicatorUL": 0x0016, "UEStatus3GPPPSDataOffUL": 0x0017,
	"ReliableDataServiceRequestIndicatorUL": 0x0018, "AdditionalAPNRateControlForExceptionDataSupportIndicatorUL": 0x0019, "PDUSessionIDUL": 0x001a,
	"EthernetFramePayloadMTURequestUL": 0x0020, "UnstructuredLinkMTURequestUL": 0x0021, "I5GSMCauseValueUL": 0x0022,
	"QoSRulesWithTheLengthOfTwoOctetsSupportIndicatorUL": 0x0023, "QoSFlowDescriptionsWithTheLengthOfTwoOctetsSupportIndicatorUL": 0x0024,
	"LinkControlProtocolUL": 0xc021, "PushAccessControlProtocolUL": 0xc023, "ChallengeHandshakeAuthenticationProtocolUL": 0xc223, "InternetProtocolControlProtocolUL": 0x8021,
	"PCSCFIPv6AddressDL": 0x0001, "IMCNSubsystemSignalingFlagDL": 0x0002, "DNSServerIPv6AddressDL": 0x0003, "PolicyControlRejectionCodeDL": 0x0004,
	"SelectedBearerControlModeDL": 0x0005, "DSMIPv6HomeAgentAddressDL": 0x0007, "DSMIPv6HomeNetworkPrefixDL": 0x0008, "DSMIPv6IPv4HomeAgentAddressDL": 0x0009,
	"PCSCFIPv4AddressDL": 0x000c, "DNSServerIPv4AddressDL": 0x000d, "MSISDNDL": 0x000e, "IFOMSupportDL": 0x000f, "IPv4LinkMTUDL": 0x0010,
	"NetworkSupportOfLocaladdressInTFTIndicatorDL": 0x0011, "NBIFOMAcceptedIndicatorDL": 0x0013, "NBIFOMModeDL": 0x0014, "NonIPLinkMTUDL": 0x0015,
	"APNRateControlParametersDL": 0x0016, "Indication3GPPPSDataOffSupportDL": 0x0017, "ReliableDataServiceAcceptedIndicatorDL": 0x0018,
	"AdditionalAPNRateControlForExceptionDataParametersDL": 0x0019, "SNSSAIDL": 0x001b, "QoSRulesDL": 0x001c, "SessionAMBRDL": 0x001d,
	"PDUSessionAddressLifetimeDL": 0x001e, "QoSFlowDescriptions": 0x001f, "EthernetFramePayloadMTU": 0x0020, "UnstructuredLinkMTU": 0x0021,
	"QoSRulesWithTheLengthOfTwoOctets": 0x0023, "QoSFlowDescriptionsWithTheLengthOfTwoOctets": 0x0024,
}

// r17pcoid: every identifier constant has its table value (a constant that was renamed or
// removed is not an error of this rule: whoever used it no longer compiles).
func r17pcoid(c *core.Ctx) {
	const R = "R17.pcoid"
	c.Rule(R, "the PCO protocol/container identifier constants of nasMessage have the values of TS 24.008 table 10.5.154")
	var pkg *types.Package
	if pp := c.P.Pkg(pNasM); pp != nil {
		pkg = pp.Types
	}
	if pkg == nil {
		c.SoftUndecided("%s: package %s not loaded", R, pNasM)
		return
	}
	var names []string
	for n := range pcoIDs {
		names = append(names, n)
	}
	sort.Strings(names)
	n := 0
	for _, name := range names {
		k, ok := pkg.Scope().Lookup(name).(*types.Const)
		if !ok {
			continue
		}
		v, exact := constant.Int64Val(k.Val())
		n++
		c.Check(exact && v == pcoIDs[name], R, "nasMessage."+name, k.Pos(), fmt.Sprintf("%#04x", pcoIDs[name]), "nasMessage.%s is %#04x, TS 24.008 table 10.5.154 assigns %#04x to this option: the peer reads a different option (or none)", name, v, pcoIDs[name])
	}
	c.Sites(n)
	c.Floor(R, n, len(pcoIDs))
}

var allOctets = func() []int64 {
	var out []int64
	for i := int64(0); i < 256; i++ {
		out = append(out, i)
	}
	return out
}()
