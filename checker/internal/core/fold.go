package core

import (
	"go/token"
	"go/types"

	"golang.org/x/tools/go/ssa"
)

// FoldCall is interprocedural constant folding (the "conditional constant" part of
// SCCP): the result of a call of a side-effect-free integer function whose
// arguments are all constants. Only phis, integer arithmetic/comparisons,
// conversions, branches and returns are folded; anything else (memory, calls,
// panics) makes the call not foldable. No loops are followed more than 64 block
// transitions. Used to name what e.g. hexCharToByte('f') is without running it.
func FoldCall(fn *ssa.Function, args []int64) (int64, bool) {
	if fn == nil || len(fn.Blocks) == 0 || len(args) != len(fn.Params) {
		return 0, false
	}
	env := map[ssa.Value]int64{}
	for i, p := range fn.Params {
		if widthOf(p.Type()) == 0 {
			return 0, false
		}
		env[p] = wrap(args[i], p.Type())
	}
	val := func(v ssa.Value) (int64, bool) {
		if k, ok := env[v]; ok {
			return k, true
		}
		if c, ok := v.(*ssa.Const); ok {
			if b, isB := ConstBool(c); isB {
				if b {
					return 1, true
				}
				return 0, true
			}
			return ConstInt(c)
		}
		return 0, false
	}
	b := fn.Blocks[0]
	var prev *ssa.BasicBlock
	for steps := 0; steps < 64; steps++ {
		for _, in := range b.Instrs {
			switch x := in.(type) {
			case *ssa.DebugRef:
			case *ssa.Phi:
				found := false
				for i, p := range b.Preds {
					if p == prev {
						k, ok := val(x.Edges[i])
						if !ok {
							return 0, false
						}
						env[x] = k
						found = true
					}
				}
				if !found {
					return 0, false
				}
			case *ssa.Convert:
				k, ok := val(x.X)
				if !ok || widthOf(x.Type()) == 0 {
					return 0, false
				}
				env[x] = wrap(k, x.Type())
			case *ssa.ChangeType:
				k, ok := val(x.X)
				if !ok {
					return 0, false
				}
				env[x] = k
			case *ssa.UnOp:
				k, ok := val(x.X)
				if !ok {
					return 0, false
				}
				switch x.Op {
				case token.SUB:
					env[x] = wrap(-k, x.Type())
				case token.XOR:
					env[x] = wrap(^k, x.Type())
				case token.NOT:
					env[x] = 1 - k
				default:
					return 0, false
				}
			case *ssa.BinOp:
				l, okL := val(x.X)
				r, okR := val(x.Y)
				if !okL || !okR {
					return 0, false
				}
				var o int64
				bl := func(c bool) int64 {
					if c {
						return 1
					}
					return 0
				}
				switch x.Op {
				case token.ADD:
					o = l + r
				case token.SUB:
					o = l - r
				case token.MUL:
					o = l * r
				case token.AND:
					o = l & r
				case token.OR:
					o = l | r
				case token.XOR:
					o = l ^ r
				case token.SHL:
					if r < 0 || r > 63 {
						return 0, false
					}
					o = l << uint(r)
				case token.SHR:
					if r < 0 || r > 63 {
						return 0, false
					}
					if isSigned(x.X.Type()) {
						o = l >> uint(r)
					} else {
						o = int64(uint64(l) >> uint(r))
					}
				case token.EQL:
					o = bl(l == r)
				case token.NEQ:
					o = bl(l != r)
				case token.LSS:
					o = bl(l < r)
				case token.LEQ:
					o = bl(l <= r)
				case token.GTR:
					o = bl(l > r)
				case token.GEQ:
					o = bl(l >= r)
				default:
					return 0, false
				}
				if widthOf(x.Type()) > 1 {
					o = wrap(o, x.Type())
				}
				env[x] = o
			case *ssa.If:
				k, ok := val(x.Cond)
				if !ok {
					return 0, false
				}
				prev = b
				if k != 0 {
					b = b.Succs[0]
				} else {
					b = b.Succs[1]
				}
			case *ssa.Jump:
				prev = b
				b = b.Succs[0]
			case *ssa.Return:
				if len(x.Results) != 1 {
					return 0, false
				}
				return val(x.Results[0])
			default:
				return 0, false
			}
		}
	}
	return 0, false
}

// wrap reduces k to the value range of integer type t (two's complement).
func wrap(k int64, t types.Type) int64 {
	w := widthOf(t)
	if w == 0 || w >= 64 {
		return k
	}
	m := int64(1)<<uint(w) - 1
	k &= m
	if isSigned(t) && k>>(uint(w)-1)&1 == 1 {
		k -= int64(1) << uint(w)
	}
	return k
}
