package rules

import (
	"go/types"
	"strings"

	"golang.org/x/tools/go/ssa"

	"stgverif/internal/core"
)

// R9.ctor.len (DESIGN §11.9): the constructors of nasTestpacket are interpreted up to the point
// where the message is encoded. Every information element that was handed one of the
// constructor's octet-string arguments must then hold exactly that argument — all of its octets,
// with its Len field equal to the argument's length — whoever allocates the buffer (the
// constructor by SetLen, or the setter itself).
func r9ctorLen(c *core.Ctx) {
	const R = "R9.ctor.len"
	c.Rule(R, "nasTestpacket constructors: an IE given a caller's octet string carries all of it, with Len = its length, when the message is encoded")
	sp := c.P.SSAPkg(pNasTP)
	if sp == nil {
		c.Undecided("package nasTestpacket not loaded")
	}
	n := 0
	for _, fn := range allFuncsOf(sp) {
		if fn.Object() == nil || !fn.Object().Exported() || fn.Signature.Recv() != nil || len(fn.Blocks) == 0 {
			continue
		}
		type given struct{ obj, param, setter string }
		var gs []given
		ex := core.NewExec()
		ex.MaxStates = 3000
		ex.Observe = func(ev *core.AEvent) {
			if !strings.HasPrefix(ev.Callee, pNasT+".") || len(ev.Args) < 2 || ev.Args[0].K != core.APtr {
				return
			}
			short := ev.Callee[strings.LastIndexByte(ev.Callee, '.')+1:]
			if !strings.HasPrefix(short, "Set") {
				return
			}
			for _, a := range ev.Args[1:] {
				// an octet string of unknown length that exists as a whole: a parameter, or the result of another call
				if a.K == core.ASlice && a.Lo == 0 && a.Len < 0 {
					if _, segs := ev.Mem.Seq(a.Path); segs == nil && !strings.HasPrefix(a.Path, "local:") {
						gs = append(gs, given{ev.Args[0].Path, a.Path, short})
					}
				}
			}
		}
		ex.OnCall = func(ev *core.AEvent, _ *core.AMem) (core.AVal, bool) {
			if strings.HasPrefix(ev.Callee, pNas+".Message.") && strings.Contains(ev.Callee, "Encode") {
				ev.Stop = true
				return core.AVal{}, true
			}
			return core.AVal{}, false
		}
		args := core.DefaultArgs(fn)
		outs, err := ex.Run(fn, args, nil)
		if err != nil {
			c.SoftUndecided("R9.ctor.len: nasTestpacket.%s could not be evaluated (%v)", fn.Name(), err)
			continue
		}
		c.Analysed(pNasTP + "." + fn.Name())
		seen := map[string]bool{}
		for _, o := range outs {
			if !o.Stopped {
				continue
			}
			for _, g := range gs {
				if !o.Mem.IsFresh(g.obj) {
					continue // the IE was not built on this path
				}
				buf := o.Mem.Load(g.obj+".Buffer", types.NewSlice(types.Typ[types.Uint8]))
				if buf.K != core.ASlice && buf.K != core.ANil {
					continue // not a Buffer-carrying IE (fixed-size value)
				}
				// only the IEs that were handed the argument on THIS path have the object allocated here
				ln := o.Mem.Load(g.obj+".Len", types.Typ[types.Uint16])
				if ln.K != core.AInt {
					continue
				}
				key := "nasTestpacket." + fn.Name() + ":" + g.setter + "(" + g.param + ")"
				if seen[key] {
					continue
				}
				// was the setter reached on this path? the nil-ness fact of the parameter tells
				if isNil, known := o.Nils[g.param]; known && isNil {
					continue
				}
				seen[key] = true
				n++
				content := strings.Join(sliceContent(o.Mem, buf), ",")
				if buf.K == core.ANil {
					content = "(no buffer)"
				}
				okContent := content == g.param+"[0:]@0"
				okLen := len(ln.Bits) > 0 && ln.Bits.IsCopy(len(ln.Bits)-1, 0, "len("+g.param+")", 0)
				c.Check(okContent && okLen, R, key, fn.Pos(), "Buffer = the argument, Len = len(argument)",
					"%s hands %s to %s, but when the message is encoded the IE holds %s with Len %s: it must carry all octets of %s with Len = len(%s)",
					fn.Name(), g.param, g.setter, clip(content), ln, g.param, g.param)
			}
		}
	}
	c.Floor(R, n, 10)
}

var _ *ssa.Function
