// Package core holds the plumbing shared by every rule: loading /repo's current
// working tree, the obligation ledger, known findings, evidence output.
package core

import (
	"fmt"
	"go/ast"
	"go/token"
	"go/types"
	"os"
	"sort"
	"strings"

	"golang.org/x/tools/go/callgraph"
	"golang.org/x/tools/go/packages"
	"golang.org/x/tools/go/ssa"
	"golang.org/x/tools/go/ssa/ssautil"
)

// Program is the type-checked repository plus its SSA form.
type Program struct {
	Dir    string
	Fset   *token.FileSet
	Roots  []*packages.Package
	All    map[string]*packages.Package // every package, dependencies included
	SSA    *ssa.Program
	GOARCH string
	cg     *callgraph.Graph
}

// anchorPackages must be present in every load; a tree where one of them is
// missing cannot be decided.
var anchorPackages = []string{
	"stgutgmain", "stgutg", "tglib", "tglib/ngapTestpacket",
	"free5gclib/aper", "free5gclib/aper/logger", "free5gclib/ngap", "free5gclib/ngap/ngapType",
	"free5gclib/nas", "free5gclib/nas/nasMessage", "free5gclib/nas/nasType",
	"free5gclib/nas/nasTestpacket", "free5gclib/nas/security", "free5gclib/nas/security/snow3g",
	"free5gclib/nas/nasConvert", "free5gclib/ngap/ngapConvert", "free5gclib/milenage",
	"free5gclib/UeauCommon",
}

// RepoDir is /repo unless VERIF_REPO overrides it (used by the self-test on
// scratch copies only; registered commands never set it).
func RepoDir() string {
	if d := os.Getenv("VERIF_REPO"); d != "" {
		return d
	}
	return "/repo"
}

// Load type-checks the whole workspace in one go/packages load and builds SSA.
func Load(dir, goarch string) (*Program, error) {
	var env []string
	for _, e := range os.Environ() {
		// the repository is a go.work workspace: -mod=mod is refused there, and
		// a stray GOWORK would hide it.
		if strings.HasPrefix(e, "GOFLAGS=") || strings.HasPrefix(e, "GOWORK=") ||
			strings.HasPrefix(e, "GOARCH=") || strings.HasPrefix(e, "GOOS=") {
			continue
		}
		env = append(env, e)
	}
	env = append(env, "GOPROXY=off", "GOSUMDB=off", "GOTOOLCHAIN=local", "GOOS=linux")
	if goarch != "" {
		env = append(env, "GOARCH="+goarch)
	}
	cfg := &packages.Config{
		Mode: packages.LoadAllSyntax,
		Dir:  dir,
		Env:  env,
	}
	roots, err := packages.Load(cfg, ".", "./src/free5gclib/...", "./src/tglib/...", "./src/stgutg/...")
	if err != nil {
		return nil, fmt.Errorf("go/packages load failed: %v", err)
	}
	if len(roots) == 0 {
		return nil, fmt.Errorf("go/packages returned zero packages")
	}
	p := &Program{Dir: dir, Roots: roots, All: map[string]*packages.Package{}, GOARCH: goarch}
	var errs []string
	packages.Visit(roots, nil, func(pk *packages.Package) {
		p.All[pk.PkgPath] = pk
		if p.Fset == nil && pk.Fset != nil {
			p.Fset = pk.Fset
		}
		for _, e := range pk.Errors {
			errs = append(errs, pk.PkgPath+": "+e.Error())
		}
	})
	if len(errs) > 0 {
		sort.Strings(errs)
		if len(errs) > 8 {
			errs = errs[:8]
		}
		return nil, fmt.Errorf("type/load errors: %s", strings.Join(errs, " | "))
	}
	for _, a := range anchorPackages {
		if p.All[a] == nil {
			return nil, fmt.Errorf("anchor package %q not loaded", a)
		}
	}
	prog, _ := ssautil.AllPackages(roots, ssa.InstantiateGenerics)
	prog.Build()
	p.SSA = prog
	return p, nil
}

// Pkg returns the loaded package or nil.
func (p *Program) Pkg(path string) *packages.Package { return p.All[path] }

// SSAPkg returns the SSA package for an import path.
func (p *Program) SSAPkg(path string) *ssa.Package {
	pk := p.All[path]
	if pk == nil || pk.Types == nil {
		return nil
	}
	return p.SSA.Package(pk.Types)
}

// Func resolves a package-level function or a method "Recv.Name" / "(*Recv).Name".
func (p *Program) Func(pkgPath, name string) *ssa.Function {
	sp := p.SSAPkg(pkgPath)
	if sp == nil {
		return nil
	}
	if i := strings.LastIndex(name, "."); i >= 0 {
		recv, m := name[:i], name[i+1:]
		recv = strings.TrimPrefix(recv, "(*")
		recv = strings.TrimSuffix(recv, ")")
		recv = strings.TrimPrefix(recv, "*")
		t := sp.Type(recv)
		if t == nil {
			return nil
		}
		for _, typ := range []types.Type{t.Type(), types.NewPointer(t.Type())} {
			ms := p.SSA.MethodSets.MethodSet(typ)
			for i := 0; i < ms.Len(); i++ {
				sel := ms.At(i)
				if sel.Obj().Name() == m {
					if fn := p.SSA.MethodValue(sel); fn != nil && fn.Synthetic == "" {
						return fn
					} else if fn != nil {
						// wrapper for value-receiver method: find the declared one
						if o, ok := sel.Obj().(*types.Func); ok {
							if d := p.SSA.FuncValue(o); d != nil {
								return d
							}
						}
					}
				}
			}
		}
		return nil
	}
	return sp.Func(name)
}

// Pos renders a position relative to the repository root.
func (p *Program) Pos(pos token.Pos) string {
	if !pos.IsValid() {
		return "-"
	}
	ps := p.Fset.Position(pos)
	f := strings.TrimPrefix(ps.Filename, p.Dir+"/")
	return fmt.Sprintf("%s:%d", f, ps.Line)
}

// FuncDecl finds the AST declaration of a function by package and name
// ("Name" or "Recv.Name").
func (p *Program) FuncDecl(pkgPath, name string) *ast.FuncDecl {
	pk := p.All[pkgPath]
	if pk == nil {
		return nil
	}
	recv := ""
	if i := strings.LastIndex(name, "."); i >= 0 {
		recv, name = name[:i], name[i+1:]
	}
	for _, f := range pk.Syntax {
		for _, d := range f.Decls {
			fd, ok := d.(*ast.FuncDecl)
			if !ok || fd.Name.Name != name {
				continue
			}
			if recv == "" && fd.Recv == nil {
				return fd
			}
			if recv != "" && fd.Recv != nil && len(fd.Recv.List) == 1 {
				t := fd.Recv.List[0].Type
				if s, ok := t.(*ast.StarExpr); ok {
					t = s.X
				}
				if id, ok := t.(*ast.Ident); ok && id.Name == recv {
					return fd
				}
			}
		}
	}
	return nil
}

// RepoPackages lists the packages that belong to the repository's own modules.
func (p *Program) RepoPackages() []*packages.Package {
	var out []*packages.Package
	for path, pk := range p.All {
		if IsRepoPath(path) {
			out = append(out, pk)
		}
	}
	sort.Slice(out, func(i, j int) bool { return out[i].PkgPath < out[j].PkgPath })
	return out
}

// IsRepoPath reports whether an import path belongs to the repository.
func IsRepoPath(path string) bool {
	return path == "stgutgmain" || path == "stgutg" || path == "stgutgp" || path == "tglib" ||
		strings.HasPrefix(path, "tglib/") || strings.HasPrefix(path, "stgutg/") ||
		strings.HasPrefix(path, "free5gclib/") || path == "free5gclib"
}
