package core

import (
	"go/token"
	"go/types"
	"math"

	"golang.org/x/tools/go/ssa"
)

// Interval is a closed integer interval; Known=false means "no information"
// (never the basis of a report).
type Interval struct {
	Lo, Hi int64
	Known  bool
}

func top() Interval { return Interval{} }

func exactly(c int64) Interval { return Interval{c, c, true} }

// IntervalAnalyzer is the mini value analysis of DESIGN A4: intervals from
// constants, x%c, x&mask, unsigned narrow types, counted-loop induction variables,
// arithmetic on known intervals, refined by the comparisons that dominate the
// point of use.
type IntervalAnalyzer struct {
	fn    *ssa.Function
	loops map[*ssa.Phi]Interval
}

func NewIntervalAnalyzer(fn *ssa.Function) *IntervalAnalyzer {
	a := &IntervalAnalyzer{fn: fn, loops: map[*ssa.Phi]Interval{}}
	a.findLoops()
	return a
}

func (a *IntervalAnalyzer) findLoops() {
	for _, b := range a.fn.Blocks {
		for _, in := range b.Instrs {
			ph, ok := in.(*ssa.Phi)
			if !ok {
				break
			}
			if len(ph.Edges) != 2 {
				continue
			}
			for k := 0; k < 2; k++ {
				bo, isBo := ph.Edges[k].(*ssa.BinOp)
				if !isBo || bo.Op != token.ADD || bo.X != ssa.Value(ph) {
					continue
				}
				step, okS := ConstInt(bo.Y)
				init, okI := ConstInt(ph.Edges[1-k])
				if !okS || !okI || step <= 0 {
					continue
				}
				// limit from the header test
				iff, isIf := b.Instrs[len(b.Instrs)-1].(*ssa.If)
				if !isIf {
					continue
				}
				cmp, isCmp := iff.Cond.(*ssa.BinOp)
				if !isCmp || cmp.X != ssa.Value(ph) {
					continue
				}
				lim := a.evalAt(cmp.Y, b, 0)
				if !lim.Known {
					// the phi itself is at least init (monotone increasing)
					a.loops[ph] = Interval{init, math.MaxInt64, true}
					continue
				}
				switch cmp.Op {
				case token.LSS:
					a.loops[ph] = Interval{init, max64(init, lim.Hi), true} // header value may equal the limit on exit
				case token.LEQ:
					a.loops[ph] = Interval{init, max64(init, lim.Hi+step), true}
				}
			}
		}
	}
}

func max64(a, b int64) int64 {
	if a > b {
		return a
	}
	return b
}

func min64(a, b int64) int64 {
	if a < b {
		return a
	}
	return b
}

func typeRange(t types.Type) Interval {
	if b, ok := t.Underlying().(*types.Basic); ok {
		switch b.Kind() {
		case types.Uint8:
			return Interval{0, 255, true}
		case types.Uint16:
			return Interval{0, 65535, true}
		case types.Bool:
			return Interval{0, 1, true}
		}
	}
	return top()
}

func isUnsignedT(t types.Type) bool {
	b, ok := t.Underlying().(*types.Basic)
	return ok && b.Info()&types.IsUnsigned != 0
}

// At returns the interval of v as seen by an instruction in block ctx.
func (a *IntervalAnalyzer) At(v ssa.Value, ctx *ssa.BasicBlock) Interval {
	return a.evalAt(v, ctx, 0)
}

func (a *IntervalAnalyzer) evalAt(v ssa.Value, ctx *ssa.BasicBlock, depth int) Interval {
	if depth > 24 {
		return top()
	}
	r := a.base(v, ctx, depth)
	// arithmetic on a narrow type wraps: a result outside the type's range only
	// tells us the value is somewhere in that range
	if _, isBin := v.(*ssa.BinOp); isBin && r.Known {
		if tr := narrowRange(v.Type()); tr.Known && (r.Lo < tr.Lo || r.Hi > tr.Hi) {
			r = tr
		}
	}
	return a.refine(v, r, ctx)
}

func narrowRange(t types.Type) Interval {
	if b, ok := t.Underlying().(*types.Basic); ok {
		switch b.Kind() {
		case types.Uint8:
			return Interval{0, 255, true}
		case types.Uint16:
			return Interval{0, 65535, true}
		case types.Uint32:
			return Interval{0, 4294967295, true}
		case types.Int8:
			return Interval{-128, 127, true}
		case types.Int16:
			return Interval{-32768, 32767, true}
		case types.Int32:
			return Interval{-2147483648, 2147483647, true}
		}
	}
	return Interval{}
}

func (a *IntervalAnalyzer) base(v ssa.Value, ctx *ssa.BasicBlock, depth int) Interval {
	if c, ok := ConstInt(v); ok {
		if _, isC := v.(*ssa.Const); isC {
			return exactly(c)
		}
	}
	switch x := v.(type) {
	case *ssa.Const:
		return top()
	case *ssa.Convert:
		in := a.evalAt(x.X, ctx, depth+1)
		tr := typeRange(x.Type())
		if in.Known {
			if tr.Known && (in.Lo < tr.Lo || in.Hi > tr.Hi) {
				return tr // may wrap: only the type range is certain
			}
			if !tr.Known && isUnsignedT(x.Type()) && in.Lo < 0 {
				return top()
			}
			return in
		}
		return tr
	case *ssa.ChangeType:
		return a.evalAt(x.X, ctx, depth+1)
	case *ssa.UnOp:
		if x.Op == token.SUB {
			in := a.evalAt(x.X, ctx, depth+1)
			if in.Known && in.Lo != math.MinInt64 {
				lo, hi := -in.Hi, -in.Lo
				if in.Hi == math.MaxInt64 {
					lo = math.MinInt64
				}
				return Interval{lo, hi, true}
			}
		}
		return typeRange(x.Type())
	case *ssa.Phi:
		if iv, ok := a.loops[x]; ok {
			return iv
		}
		var acc Interval
		for i, e := range x.Edges {
			if e == ssa.Value(x) {
				continue
			}
			ei := a.evalAt(e, x.Block().Preds[i], depth+1)
			if !ei.Known {
				return typeRange(x.Type())
			}
			if !acc.Known {
				acc = ei
			} else {
				acc = Interval{min64(acc.Lo, ei.Lo), max64(acc.Hi, ei.Hi), true}
			}
		}
		if acc.Known {
			return acc
		}
		return typeRange(x.Type())
	case *ssa.Call:
		// known library ranges and one-line same-package helpers
		name := CalleeName(&x.Call)
		switch name {
		case "math/bits.Len64", "math/bits.Len", "math/bits.LeadingZeros64", "math/bits.TrailingZeros64", "math/bits.OnesCount64":
			return Interval{0, 64, true}
		case "math/bits.Len32", "math/bits.LeadingZeros32", "math/bits.OnesCount32":
			return Interval{0, 32, true}
		case "math/bits.Len16":
			return Interval{0, 16, true}
		case "math/bits.Len8":
			return Interval{0, 8, true}
		}
		if callee := x.Call.StaticCallee(); callee != nil && len(callee.Blocks) == 1 && depth < 20 && a.fn != nil && callee.Pkg == a.fn.Pkg {
			for _, in := range callee.Blocks[0].Instrs {
				if r, isRet := in.(*ssa.Return); isRet && len(r.Results) == 1 {
					// the helper's result for arguments anywhere in their types' ranges
					sub := NewIntervalAnalyzer(callee)
					return sub.evalAt(r.Results[0], callee.Blocks[0], depth+4)
				}
			}
		}
		return typeRange(v.Type())
	case *ssa.BinOp:
		l := a.evalAt(x.X, ctx, depth+1)
		r := a.evalAt(x.Y, ctx, depth+1)
		uns := isUnsignedT(x.X.Type())
		switch x.Op {
		case token.REM:
			if r.Known && r.Lo == r.Hi && r.Lo > 0 && (uns || (l.Known && l.Lo >= 0)) {
				hi := r.Lo - 1
				if l.Known && l.Hi < hi {
					hi = l.Hi
				}
				return Interval{0, hi, true}
			}
			// signed dividend of unknown sign: Go's % keeps the sign of the dividend
			if r.Known && r.Lo == r.Hi && r.Lo > 0 && !uns {
				return Interval{-(r.Lo - 1), r.Lo - 1, true}
			}
		case token.AND:
			if r.Known && r.Lo == r.Hi && r.Lo >= 0 {
				return Interval{0, r.Lo, true}
			}
			if l.Known && l.Lo == l.Hi && l.Lo >= 0 {
				return Interval{0, l.Lo, true}
			}
		case token.ADD:
			if l.Known && r.Known {
				return Interval{satAdd(l.Lo, r.Lo), satAdd(l.Hi, r.Hi), true}
			}
		case token.SUB:
			if l.Known && r.Known {
				lo, hi := l.Lo-r.Hi, l.Hi-r.Lo
				if uns && lo < 0 {
					return top() // may wrap around
				}
				return Interval{lo, hi, true}
			}
		case token.MUL:
			if l.Known && r.Known && l.Lo >= 0 && r.Lo >= 0 && l.Hi < 1<<31 && r.Hi < 1<<31 {
				return Interval{l.Lo * r.Lo, l.Hi * r.Hi, true}
			}
		case token.QUO:
			if l.Known && r.Known && r.Lo == r.Hi && r.Lo > 0 && l.Lo >= 0 {
				return Interval{l.Lo / r.Lo, l.Hi / r.Lo, true}
			}
		case token.SHR:
			if l.Known && r.Known && r.Lo == r.Hi && l.Lo >= 0 && r.Lo >= 0 && r.Lo < 63 {
				return Interval{l.Lo >> uint(r.Lo), l.Hi >> uint(r.Lo), true}
			}
		case token.SHL:
			if l.Known && r.Known && r.Lo == r.Hi && l.Lo >= 0 && r.Lo >= 0 && r.Lo < 31 && l.Hi < 1<<31 {
				return Interval{l.Lo << uint(r.Lo), l.Hi << uint(r.Lo), true}
			}
		}
		return typeRange(x.Type())
	}
	return typeRange(v.Type())
}

func satAdd(a, b int64) int64 {
	if b > 0 && a > math.MaxInt64-b {
		return math.MaxInt64
	}
	if b < 0 && a < math.MinInt64-b {
		return math.MinInt64
	}
	return a + b
}

func addOverflows(a, b int64) bool {
	return (b > 0 && a > math.MaxInt64-b) || (b < 0 && a < math.MinInt64-b)
}

// refine narrows r by the comparisons of v with constants that dominate ctx.
func (a *IntervalAnalyzer) refine(v ssa.Value, r Interval, ctx *ssa.BasicBlock) Interval {
	if ctx == nil {
		return r
	}
	for b := ctx; b != nil; b = b.Idom() {
		idom := b.Idom()
		if idom == nil {
			break
		}
		iff, ok := idom.Instrs[len(idom.Instrs)-1].(*ssa.If)
		if !ok || len(b.Preds) != 1 || b.Preds[0] != idom {
			continue
		}
		taken := idom.Succs[0] == b
		switch cond := iff.Cond.(type) {
		case *ssa.BinOp:
			r = a.applyCmp(v, r, cond, taken, idom)
		case *ssa.Phi:
			// short-circuit &&: phi(c2 | false) is true only if c2 holds and the block
			// that evaluated c2 was reached; || : phi(c2 | true) is false only if c2 is false.
			var expr ssa.Value
			var from *ssa.BasicBlock
			constVal, nConst := false, 0
			for i, e := range cond.Edges {
				if bv, isB := ConstBool(e); isB {
					constVal = bv
					nConst++
				} else {
					expr = e
					from = cond.Block().Preds[i]
				}
			}
			if expr == nil || nConst != len(cond.Edges)-1 {
				continue
			}
			if cmp, isCmp := expr.(*ssa.BinOp); isCmp {
				if taken && !constVal {
					r = a.applyCmp(v, r, cmp, true, from)
					r = a.refine(v, r, from)
				} else if !taken && constVal {
					r = a.applyCmp(v, r, cmp, false, from)
					r = a.refine(v, r, from)
				}
			}
		}
	}
	return r
}

func (a *IntervalAnalyzer) applyCmp(v ssa.Value, r Interval, cmp *ssa.BinOp, taken bool, at *ssa.BasicBlock) Interval {
	op := cmp.Op
	var k int64
	if cmp.X == v {
		kk, okK := ConstInt(cmp.Y)
		if !okK {
			// v < Y with Y in a known interval: v <= Y.Hi-1 on the taken edge
			if taken && (op == token.LSS || op == token.LEQ) && cmp.Y != v {
				yi := a.evalAt(cmp.Y, at, 20)
				if yi.Known && r.Known {
					if op == token.LSS {
						r.Hi = min64(r.Hi, yi.Hi-1)
					} else {
						r.Hi = min64(r.Hi, yi.Hi)
					}
				}
			}
			return r
		}
		k = kk
	} else if cmp.Y == v {
		kk, okK := ConstInt(cmp.X)
		if !okK {
			return r
		}
		k = kk
		switch op {
		case token.LSS:
			op = token.GTR
		case token.GTR:
			op = token.LSS
		case token.LEQ:
			op = token.GEQ
		case token.GEQ:
			op = token.LEQ
		}
	} else {
		return r
	}
	if !taken {
		switch op {
		case token.EQL:
			op = token.NEQ
		case token.NEQ:
			op = token.EQL
		case token.LSS:
			op = token.GEQ
		case token.GEQ:
			op = token.LSS
		case token.GTR:
			op = token.LEQ
		case token.LEQ:
			op = token.GTR
		default:
			return r
		}
	}
	if !r.Known {
		// comparisons alone can establish (one-sided) bounds
		lo, hi := int64(math.MinInt64), int64(math.MaxInt64)
		if isUnsignedT(v.Type()) {
			lo = 0
		}
		switch op {
		case token.LSS:
			return Interval{lo, k - 1, true}
		case token.LEQ:
			return Interval{lo, k, true}
		case token.EQL:
			return exactly(k)
		case token.GTR:
			return Interval{k + 1, hi, true}
		case token.GEQ:
			return Interval{k, hi, true}
		}
		return r
	}
	switch op {
	case token.EQL:
		r = exactly(k)
	case token.NEQ:
		if r.Lo == k {
			r.Lo++
		}
		if r.Hi == k {
			r.Hi--
		}
	case token.LSS:
		r.Hi = min64(r.Hi, k-1)
	case token.LEQ:
		r.Hi = min64(r.Hi, k)
	case token.GTR:
		r.Lo = max64(r.Lo, k+1)
	case token.GEQ:
		r.Lo = max64(r.Lo, k)
	}
	return r
}
