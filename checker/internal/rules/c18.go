package rules

import (
	"bufio"
	"fmt"
	"go/token"
	"go/types"
	"os"
	"path/filepath"
	"reflect"
	"sort"
	"strings"

	"golang.org/x/tools/go/ssa"

	"stgverif/internal/core"
)

func init() { Registry["C18"] = c18 }

// T-CONF: the 24 documented keys and the kind of value they hold.
var tConf = map[string]string{
	"amf_ngap_ip": "string", "amf_ngap_port": "int", "gnb_gtp_ip": "string", "stg_ngap_ip": "string", "stg_ngap_port": "int",
	"gnb_id": "string", "gnb_bitlength": "uint", "gnb_name": "string", "initial_imsi": "string", "mcc": "string", "mnc": "string",
	"k": "string", "opc": "string", "op": "string", "sst": "int", "sd": "string", "downlink_iface": "string", "uplink_iface": "string",
	"ue_number": "int", "ue_registration": "int", "ue_pdu": "int", "ue_service": "int", "ue_pdu_release": "int", "ue_deregistration": "int",
}

// T-CONF: which key each procedure parameter must receive ("" = not a configuration value).
var tConfFlow = map[string][]string{
	pTglib + ".ConnectToAmf": {"amf_ngap_ip", "stg_ngap_ip", "amf_ngap_port", "stg_ngap_port"},
	pStg + ".ManageNGSetup":  {"", "gnb_id", "initial_imsi", "mnc", "gnb_bitlength", "gnb_name"},
	pStg + ".CreateUE":       {"initial_imsi", "", "k", "opc", "op"},
	pStg + ".RegisterUE":     {"", "mnc", "mcc", ""},
	pStg + ".EstablishPDU":   {"sst", "sd", "", "", "gnb_gtp_ip"},
	pStg + ".ServiceRequest": {"", "", "", "gnb_gtp_ip"},
	pStg + ".ReleasePDU":     {"sst", "sd", "", ""},
	pStg + ".DeregisterUE":   {"", "mnc", ""},
}

func c18(c *core.Ctx) map[string]interface{} {
	c.Explanation = "Static key/field/parameter table check of configuration loading and mode selection (C18). Decided: (R18.keys) the yaml tags of Conf.Configuration are exactly the 24 documented keys of config.yaml (both shipped copies are parsed), unique, on exported fields of a kind fitting the documented values; (R18.load) GetConfiguration reads config.yaml and hands the bytes and its receiver to yaml.Unmarshal, nothing else writes the configuration afterwards (neither in GetConfiguration nor in main), and main loads it before the first read; (R18.flow) every argument of ConnectToAmf, ManageNGSetup, CreateUE, RegisterUE, EstablishPDU, ServiceRequest, ReleasePDU, DeregisterUE and InterfaceByName, and every loop bound, is the unconverted field whose tag is the documented key of that parameter, in both modes; the five test counts reach the five loops (through Min clamps); (R18.mode) GetMode, over all argument-vector lengths 0..4 and both outcomes of the \"-t\" comparison, returns 1 exactly for length 1, 2 exactly for length 2 with \"-t\", 0 otherwise; in main every procedure call is control-dependent on mode==1 or mode==2 and the banners match the branch. (R18.addr) ConnectToAmf binds the stg endpoint and dials the amf endpoint, each the resolver's answer for its configured address with its configured port, and no lossy net.IP conversion is stored unchecked on the way; (R16.cred) K, OPc and OP reach the subscription data in their own roles. NOT decided: yaml.v2's scalar conversion (trusted); README prose."
	c.Assumptions = []string{"gopkg.in/yaml.v2 stores each scalar in the field carrying the matching yaml tag without altering it"}
	fields := r18keys(c)
	r0swap(c)
	r18load(c)
	r18flow(c, fields)
	r18mode(c)
	r18addr(c)
	r16cred(c)
	r2min(c) // the test-mode loop bounds are Min(...) of the configured counts
	return nil
}

// parseConfigKeys reads the keys under "configuration:" of a YAML file (two-space indented scalars).
func parseConfigKeys(path string) ([]string, error) {
	f, err := os.Open(path)
	if err != nil {
		return nil, err
	}
	defer f.Close()
	var keys []string
	in := false
	sc := bufio.NewScanner(f)
	for sc.Scan() {
		line := sc.Text()
		t := strings.TrimSpace(line)
		if t == "" || strings.HasPrefix(t, "#") {
			continue
		}
		indent := len(line) - len(strings.TrimLeft(line, " "))
		if indent == 0 {
			in = strings.HasPrefix(t, "configuration:")
			continue
		}
		if in && indent == 2 {
			if i := strings.Index(t, ":"); i > 0 {
				keys = append(keys, t[:i])
			}
		}
	}
	return keys, sc.Err()
}

func r18keys(c *core.Ctx) map[string]string {
	const R = "R18.keys"
	c.Rule(R, "yaml tags of Conf.Configuration == documented keys of config.yaml == T-CONF (24), unique, exported, kinds fit")
	pk := c.P.Pkg(pStg)
	obj := pk.Types.Scope().Lookup("Conf")
	if obj == nil {
		c.Undecided("anchor type stgutg.Conf not found")
	}
	st, ok := obj.Type().Underlying().(*types.Struct)
	if !ok || st.NumFields() != 1 || st.Field(0).Name() != "Configuration" {
		c.Undecided("stgutg.Conf is not a struct with the single field Configuration")
	}
	cs, ok := st.Field(0).Type().Underlying().(*types.Struct)
	if !ok {
		c.Undecided("Conf.Configuration is not a struct")
	}
	byTag := map[string]string{}
	for i := 0; i < cs.NumFields(); i++ {
		f := cs.Field(i)
		tag := reflect.StructTag(cs.Tag(i)).Get("yaml")
		name := strings.Split(tag, ",")[0]
		key := "stgutg.Conf." + f.Name()
		if name == "" {
			c.Fail(R, key+":tag", f.Pos(), "field has no yaml tag: yaml.v2 would look for the lower-cased field name, which is not a documented key")
			continue
		}
		if prev, dup := byTag[name]; dup {
			c.Fail(R, key+":tag", f.Pos(), "yaml key %q is also the tag of field %s", name, prev)
			continue
		}
		byTag[name] = f.Name()
		kind, documented := tConf[name]
		if !documented {
			c.Fail(R, key+":tag", f.Pos(), "yaml key %q is not one of the 24 documented keys (a misspelt tag silently yields a zero value)", name)
			continue
		}
		if !f.Exported() {
			c.Fail(R, key+":tag", f.Pos(), "field for key %q is unexported: yaml.v2 cannot set it", name)
			continue
		}
		b, _ := f.Type().Underlying().(*types.Basic)
		okKind := b != nil && ((kind == "string" && b.Info()&types.IsString != 0) || (kind == "int" && b.Info()&types.IsInteger != 0) || (kind == "uint" && b.Info()&types.IsInteger != 0))
		c.Check(okKind, R, key+":tag", f.Pos(), fmt.Sprintf("%s → %s (%s)", name, f.Name(), f.Type()), "key %q holds a %s value but the field is %s", name, kind, f.Type())
	}
	var missing []string
	for k := range tConf {
		if _, ok := byTag[k]; !ok {
			missing = append(missing, k)
		}
	}
	sort.Strings(missing)
	c.Check(len(missing) == 0, R, "stgutg.Conf:all-documented-keys", obj.Pos(), "24/24 documented keys have a field", "documented keys without a field: %v", missing)
	// the shipped configuration files use exactly these keys
	for _, rel := range []string{"config.yaml", "src/config.yaml"} {
		keys, err := parseConfigKeys(filepath.Join(c.P.Dir, rel))
		if err != nil {
			c.Note("R18.keys: %s not readable (%v) — skipped", rel, err)
			continue
		}
		var unknown []string
		for _, k := range keys {
			if _, ok := byTag[k]; !ok {
				unknown = append(unknown, k)
			}
		}
		c.Check(len(unknown) == 0 && len(keys) >= 20, R, rel+":keys", token.NoPos, fmt.Sprintf("%d keys, all have a field", len(keys)), "%s uses keys the loader ignores: %v", rel, unknown)
	}
	return byTag
}

func r18load(c *core.Ctx) {
	const R = "R18.load"
	c.Rule(R, "GetConfiguration: ReadFile(\"config.yaml\") → yaml.Unmarshal(bytes, receiver); no other writer of the configuration; loaded in main before first read")
	fn := mustFunc(c, pStg, "Conf.GetConfiguration")
	_ = fn
	r18loadX(c, R)
	// main: GetConfiguration dominates every read; no store into the configuration
	if mainUnreadable(c, R) {
		return
	}

	mainFn := mustFunc(c, pMain, "main")
	mp := core.NewPather(mainFn)
	gc := core.CallsTo(mainFn, pStg+".Conf.GetConfiguration")
	if len(gc) != 1 {
		c.Fail(R, "main:GetConfiguration", mainFn.Pos(), "expected one GetConfiguration call in main, found %d", len(gc))
		return
	}
	cfg := mp.Path(gc[0].Common().Args[0])
	reads, early, stores := 0, 0, 0
	for _, body := range mainBodies(c) {
		// a body main hands a mode to is entered after the load when its call is
		entered := body.call == nil || core.Dominates(gc[0], body.call)
		for _, b := range body.fn.Blocks {
			for _, in := range b.Instrs {
				switch x := in.(type) {
				case *ssa.UnOp:
					if x.Op == token.MUL && strings.HasPrefix(body.p.Path(x.X), cfg+".Configuration.") {
						reads++
						if !entered || (body.call == nil && !core.Dominates(gc[0], x)) {
							early++
						}
					}
				case *ssa.Store:
					if strings.HasPrefix(body.p.Path(x.Addr), cfg+".") {
						stores++
					}
				}
			}
		}
	}
	c.Sites(reads)
	c.Check(early == 0 && stores == 0 && reads >= 40, R, "main:config-read-after-load", gc[0].Pos(), fmt.Sprintf("%d reads, all after GetConfiguration; 0 stores", reads), "%d of %d configuration reads are not dominated by GetConfiguration, %d stores overwrite it in main", early, reads, stores)
}

func r18flow(c *core.Ctx, byTag map[string]string) {
	const R = "R18.flow"
	c.Rule(R, "every procedure argument and loop bound in main is the field of its documented key (both modes)")
	if mainUnreadable(c, R) {
		return
	}
	mainFn := mustFunc(c, pMain, "main")
	p := core.NewPather(mainFn)
	gc := core.CallsTo(mainFn, pStg+".Conf.GetConfiguration")
	if len(gc) != 1 {
		return
	}
	cfg := p.Path(gc[0].Common().Args[0]) + ".Configuration."
	CF := func(tag string) string { return cfg + byTag[tag] }
	var callees []string
	for k := range tConfFlow {
		callees = append(callees, k)
	}
	sort.Strings(callees)
	n := 0
	for _, callee := range callees {
		want := tConfFlow[callee]
		calls := mainCallsTo(c, callee)
		if len(calls) == 0 {
			c.Fail(R, "main:"+shortName(callee)+":called", mainFn.Pos(), "main never calls %s", shortName(callee))
			continue
		}
		for ci, mc := range calls {
			call, p := mc.ci, mc.b.p
			for i, tag := range want {
				if tag == "" {
					continue
				}
				n++
				got := p.Path(call.Common().Args[i])
				key := fmt.Sprintf("main:%s#%d:arg%d(%s)", shortName(callee), ci+1, i, tag)
				c.Check(got == CF(tag), R, key, call.Pos(), tag, "parameter %d of %s must be the configured %q (%s), is %s", i, shortName(callee), tag, CF(tag), clip(got))
			}
		}
	}
	// interfaces
	byArg := map[string]string{}
	for _, mc := range mainCallsTo(c, "net.InterfaceByName") {
		byArg[mc.b.p.Path(mc.ci.Common().Args[0])] = mc.b.p.Path(mc.ci.(*ssa.Call)) + "#0.Index"
	}
	for _, t := range []struct{ tag, attach string }{{"downlink_iface", "AttachClientFacingProgramToInterface"}, {"uplink_iface", "AttachUpfFacingProgramToInterface"}} {
		n++
		idx, found := byArg[CF(t.tag)]
		okA := false
		for _, body := range mainBodies(c) {
			for _, ci := range core.Calls(body.fn) {
				if strings.HasSuffix(core.CalleeName(ci.Common()), "."+t.attach) && len(ci.Common().Args) == 2 && body.p.Path(ci.Common().Args[1]) == idx {
					okA = true
				}
			}
		}
		c.Check(found && okA, R, "main:"+t.attach+"("+t.tag+")", mainFn.Pos(), t.tag+" → "+t.attach, "the interface named by %q must be the one given to %s", t.tag, t.attach)
	}
	// loop bounds
	regT := CF("ue_registration")
	min := func(a, b string) string { return "call:" + pStg + ".Min(" + a + "," + b + ")" }
	est := min(regT, CF("ue_pdu"))
	wantBounds := map[string]string{
		pStg + ".CreateUE#1":       CF("ue_number"),
		pStg + ".CreateUE#2":       regT,
		pStg + ".EstablishPDU#2":   est,
		pStg + ".ServiceRequest#1": min(est, CF("ue_service")),
		pStg + ".ReleasePDU#2":     min(est, CF("ue_pdu_release")),
		pStg + ".DeregisterUE#2":   min(regT, CF("ue_deregistration")),
	}
	var bkeys []string
	for k := range wantBounds {
		bkeys = append(bkeys, k)
	}
	sort.Strings(bkeys)
	for _, k := range bkeys {
		n++
		parts := strings.Split(k, "#")
		var ord int
		fmt.Sscanf(parts[1], "%d", &ord)
		calls := mainCallsTo(c, parts[0])
		key := "main:loop-bound:" + shortName(k)
		if len(calls) < ord {
			c.Fail(R, key, mainFn.Pos(), "call %s not found", shortName(k))
			continue
		}
		call := calls[ord-1].ci
		got := enclosingLoopLimit(calls[ord-1].b.fn, calls[ord-1].b.p, call.Block())
		alt := ""
		if a, b, ok := minArgs(wantBounds[k]); ok {
			alt = min(b, a)
		}
		// a minimum is the minimum of the set of its operands: nesting, order and a variadic spelling do not matter
		sameMin := strings.Join(minLeaves(got), "|") == strings.Join(minLeaves(wantBounds[k]), "|")
		c.Check(got == wantBounds[k] || (alt != "" && got == alt) || sameMin, R, key, call.Pos(), clipCfg(wantBounds[k], cfg), "the loop around %s is bounded by %s, want %s", shortName(parts[0]), clipCfg(got, cfg), clipCfg(wantBounds[k], cfg))
	}
	c.Sites(n)
	c.Floor(R, n, 40)
}

func clipCfg(s, cfg string) string { return strings.ReplaceAll(s, cfg, "cfg.") }

// minLeaves: the operands of a (nested / variadic) stgutg.Min expression, sorted, without duplicates.
func minLeaves(s string) []string {
	pre := "call:" + pStg + ".Min("
	set := map[string]bool{}
	var walk func(e string)
	walk = func(e string) {
		e = strings.TrimSpace(e)
		if strings.HasPrefix(e, pre) && strings.HasSuffix(e, ")") && matchParen(e, len(pre)-1) == len(e)-1 {
			for _, a := range splitTop("[" + e[len(pre):len(e)-1] + "]") {
				walk(a)
			}
			return
		}
		if strings.HasPrefix(e, "[") && strings.HasSuffix(e, "]") && len(splitTop(e)) > 0 {
			for _, a := range splitTop(e) {
				walk(a)
			}
			return
		}
		set[e] = true
	}
	walk(s)
	var out []string
	for k := range set {
		out = append(out, k)
	}
	sort.Strings(out)
	return out
}

func minArgs(s string) (string, string, bool) {
	pre := "call:" + pStg + ".Min("
	if !strings.HasPrefix(s, pre) || !strings.HasSuffix(s, ")") {
		return "", "", false
	}
	inner := s[len(pre) : len(s)-1]
	parts := splitTop("[" + inner + "]")
	if len(parts) != 2 {
		return "", "", false
	}
	return parts[0], parts[1], true
}

// enclosingLoopLimit returns the rendered limit of the innermost counted loop
// (`iv < limit`) whose body contains block b.
func enclosingLoopLimit(fn *ssa.Function, p *core.Pather, b *ssa.BasicBlock) string {
	best := ""
	bestDepth := -1
	for _, l := range loopBounds(fn) {
		iff, ok := l.header.Instrs[len(l.header.Instrs)-1].(*ssa.If)
		if !ok || l.op != token.LSS {
			continue
		}
		body := iff.Block().Succs[0]
		if !body.Dominates(b) || !core.Reaches(b, l.header) {
			continue
		}
		d := domDepth(body)
		if d > bestDepth {
			bestDepth = d
			best = p.Path(l.limitVal)
		}
	}
	return best
}

func domDepth(b *ssa.BasicBlock) int {
	d := 0
	for x := b.Idom(); x != nil; x = x.Idom() {
		d++
	}
	return d
}

// ---------------------------------------------------------------- R18.mode
func r18mode(c *core.Ctx) {
	const R = "R18.mode"
	c.Rule(R, "GetMode: 1 iff len(args)==1, 2 iff len(args)==2 and the argument is \"-t\", 0 otherwise; main runs procedures only under mode 1 or 2, banners match")
	fn := mustFunc(c, pStg, "GetMode")
	p := core.NewPather(fn)
	// the standard flag package accepts far more spellings than the documented one: a boolean flag
	// t is set by -t, --t, -t=true, --t=1, -t=T …, and "--" ends the options; a decision delegated to
	// it selects test mode for command lines other than exactly `-t`
	for f := range staticReach(fn) {
		if fnPkgPath(f) != pStg {
			continue
		}
		for _, ci := range core.Calls(f) {
			if n := core.CalleeName(ci.Common()); strings.HasPrefix(n, "flag.") {
				c.Fail(R, "stgutg.GetMode:flag-grammar", ci.Pos(), "the mode is decided by package flag (%s): its grammar also accepts --t, -t=true, -t=1, a repeated -t and a trailing --, so test mode is selected by command lines other than exactly `-t` (and -t=false selects traffic mode)", n)
				return
			}
		}
	}
	lenP := "call:builtin.len(p0)"
	ev := func(in ssa.Instruction) string {
		if r, ok := in.(*ssa.Return); ok && len(r.Results) == 1 {
			if k, isK := core.ConstInt(r.Results[0]); isK {
				return fmt.Sprintf("ret:%d", k)
			}
			return "ret:?" + p.Path(r.Results[0])
		}
		return ""
	}
	br := func(cond ssa.Value) string {
		bo, ok := cond.(*ssa.BinOp)
		if !ok {
			return "cond?{" + p.Path(cond) + "}"
		}
		x, y := p.Path(bo.X), p.Path(bo.Y)
		if k, isK := core.ConstInt(bo.Y); isK && x == lenP {
			return fmt.Sprintf("sht:%s:%d", bo.Op.String(), k)
		}
		if k, isK := core.ConstInt(bo.X); isK && y == lenP {
			return fmt.Sprintf("sht:%s:%d", flipOp(bo.Op).String(), k)
		}
		isArg1 := func(s string) bool { return s == "global:os.Args[1]" || s == "p0[1]" }
		if (isArg1(x) && y == "\"-t\"") || (isArg1(y) && x == "\"-t\"") {
			if bo.Op == token.EQL {
				return "dashT"
			}
			if bo.Op == token.NEQ {
				return "notDashT"
			}
		}
		return "cond?{" + p.Path(cond) + "}"
	}
	paths, ok := core.EventPathsB(fn, ev, br, 1, 5000)
	if !ok {
		c.Undecided("GetMode has too many paths")
	}
	type pinfo struct {
		lens []int64
		t    int // -1 unconstrained, 0 false, 1 true
		ret  string
		desc string
	}
	var infos []pinfo
	for _, path := range paths {
		desc := strings.Join(path, " ")
		if hasPrefix(path, "cond?{") {
			c.Undecided("GetMode branches on a condition the rule does not recognise: %s", desc)
		}
		pi := pinfo{lens: feasibleSHT(path, []int64{0, 1, 2, 3, 4}), t: -1, desc: desc}
		for _, e := range path {
			switch e {
			case "dashT=T", "notDashT=F":
				pi.t = 1
			case "dashT=F", "notDashT=T":
				pi.t = 0
			}
			if strings.HasPrefix(e, "ret:") {
				pi.ret = e[4:]
			}
		}
		infos = append(infos, pi)
	}
	c.Sites(len(paths))
	for L := int64(0); L <= 4; L++ {
		for t := 0; t <= 1; t++ {
			want := "0"
			if L == 1 {
				want = "1"
			} else if L == 2 && t == 1 {
				want = "2"
			}
			key := fmt.Sprintf("stgutg.GetMode:argc=%d,arg1-is-dash-t=%v", L, t == 1)
			if L < 2 && t == 1 {
				continue // no argument to compare
			}
			matched := 0
			bad := ""
			for _, pi := range infos {
				in := false
				for _, l := range pi.lens {
					if l == L {
						in = true
					}
				}
				if !in || (pi.t != -1 && pi.t != t) {
					continue
				}
				matched++
				if pi.ret != want {
					bad = fmt.Sprintf("returns %s on path [%s]", pi.ret, pi.desc)
				}
			}
			if matched == 0 {
				c.Fail(R, key, fn.Pos(), "no path of GetMode covers this argument vector")
			} else {
				c.Check(bad == "", R, key, fn.Pos(), "→ "+want, "must select mode %s, but %s", want, bad)
			}
		}
	}
	// main: procedures only under mode 1/2
	if mainUnreadable(c, R) {
		return
	}
	mainFn := mustFunc(c, pMain, "main")
	mp := core.NewPather(mainFn)
	gm := core.CallsTo(mainFn, pStg+".GetMode")
	okArg := len(gm) == 1 && mp.Path(gm[0].Common().Args[0]) == "global:os.Args"
	c.Check(okArg, R, "main:GetMode(os.Args)", mainFn.Pos(), "mode := GetMode(os.Args)", "main must select the mode from os.Args")
	if len(gm) != 1 {
		return
	}
	modeV := mp.Path(gm[0].(*ssa.Call))
	var edge1, edge2 *ssa.BasicBlock
	for _, b := range mainFn.Blocks {
		iff, ok := b.Instrs[len(b.Instrs)-1].(*ssa.If)
		if !ok {
			continue
		}
		switch mp.Path(iff.Cond) {
		case "(" + modeV + "==1)":
			edge1 = b.Succs[0]
		case "(" + modeV + "==2)":
			edge2 = b.Succs[0]
		}
	}
	if edge1 == nil || edge2 == nil {
		c.Fail(R, "main:mode-branches", mainFn.Pos(), "main does not branch on mode == 1 and mode == 2")
		return
	}
	procs := map[string]bool{pTglib + ".ConnectToAmf": true, "net.InterfaceByName": true}
	for k := range tConfFlow {
		procs[k] = true
	}
	outside := 0
	nproc := 0
	// where a call of a mode body sits in main: the call itself, or the call that enters the body
	anchor := func(b *mainBody, ci ssa.CallInstruction) *ssa.BasicBlock {
		if b.call != nil {
			return b.call.Block()
		}
		return ci.Block()
	}
	for _, body := range mainBodies(c) {
		for _, ci := range core.Calls(body.fn) {
			n := core.CalleeName(ci.Common())
			if !procs[n] {
				continue
			}
			nproc++
			at := anchor(body, ci)
			if !(edge1.Dominates(at) && len(edge1.Preds) == 1) && !(edge2.Dominates(at) && len(edge2.Preds) == 1) {
				outside++
				c.Fail(R, "main:"+shortName(n)+":outside-mode-branch", ci.Pos(), "%s can run although neither traffic nor test mode was selected", shortName(n))
			}
		}
	}
	if outside == 0 {
		c.Ok(R, "main:procedures-under-mode", mainFn.Pos(), fmt.Sprintf("%d procedure calls, all under mode==1 or mode==2", nproc))
	}
	// banners
	for _, t := range []struct {
		text string
		edge *ssa.BasicBlock
	}{{"TRAFFIC MODE", edge1}, {"TEST MODE", edge2}} {
		okB := false
		for _, body := range mainBodies(c) {
			for _, ci := range core.Calls(body.fn) {
				call, isC := ci.(*ssa.Call)
				if isC && strings.HasPrefix(core.CalleeName(&call.Call), "fmt.Print") && callHasConstString(call, t.text) && t.edge.Dominates(anchor(body, ci)) {
					okB = true
				}
			}
		}
		c.Check(okB, R, "main:banner:"+t.text, mainFn.Pos(), t.text+" printed in its branch", "the %q banner is not printed in the branch of its mode", t.text)
	}
}

// ---------------------------------------------------------------- R18.addr
// The configured NGAP addresses and ports reach the SCTP association unchanged:
// ConnectToAmf dials from (stg address, stg port) to (amf address, amf port), and each
// endpoint's IP is what the resolver returns for the configured string. A lossy
// conversion on the way (net.IP.To4 yields nil for an IPv6 address) stored without a
// nil test silently replaces the configured address.
func r18addr(c *core.Ctx) {
	if !c.Once("r18addr") {
		return
	}
	const R = "R18.addr"
	c.Rule(R, "ConnectToAmf: local endpoint = resolver(stg address) : stg port, remote = resolver(amf address) : amf port; no lossy address conversion stored unchecked")
	conn := mustFunc(c, pTglib, "ConnectToAmf")
	cp := core.NewPather(conn)
	// lossy conversions anywhere below ConnectToAmf inside tglib
	nLossy := 0
	for f := range staticReach(conn) {
		if fnPkgPath(f) != pTglib {
			continue
		}
		p := core.NewPather(f)
		for _, ci := range core.Calls(f) {
			n := core.CalleeName(ci.Common())
			if n != "net.IP.To4" && n != "net.IP.To16" {
				continue
			}
			v, isV := ci.(ssa.Value)
			if !isV {
				continue
			}
			nLossy++
			stored, tested := false, false
			for _, r := range core.Referrers(v) {
				switch y := r.(type) {
				case *ssa.Store:
					if y.Val == v {
						stored = true
					}
				case *ssa.BinOp:
					if k, isK := y.Y.(*ssa.Const); isK && k.Value == nil {
						tested = true
					}
				case ssa.CallInstruction:
					if core.CalleeName(y.Common()) == "builtin.len" {
						tested = true
					}
				}
			}
			key := fmt.Sprintf("tglib.%s:%s(%s)", f.Name(), shortName(n), clip(p.Path(ci.Common().Args[0])))
			c.Check(!stored || tested, R, key, ci.Pos(), "result tested before use", "%s returns nil for an address of the other family; its result is stored as the endpoint address without a nil test, so a configured IPv6 (resp. IPv4) literal silently becomes an empty address", shortName(n))
		}
	}
	gs := core.CallsTo(conn, pTglib+".getNgapIp")
	ds := core.CallsTo(conn, pSctp+".DialSCTP")
	if len(gs) != 1 || len(ds) != 1 {
		c.SoftUndecided("ConnectToAmf: expected one getNgapIp and one DialSCTP call (found %d, %d)", len(gs), len(ds))
		return
	}
	ga := gs[0].Common().Args
	okArgs := len(ga) == 4 && cp.Path(ga[0]) == "p0" && cp.Path(ga[1]) == "p1" && cp.Path(ga[2]) == "p2" && cp.Path(ga[3]) == "p3"
	c.Check(okArgs, R, "tglib.ConnectToAmf:getNgapIp-args", gs[0].Pos(), "(amfIP, stgIP, amfPort, stgPort)", "getNgapIp must receive (amfIP, stgIP, amfPort, stgPort) in this order")
	da := ds[0].Common().Args
	gcall := cp.Path(gs[0].(ssa.Value))
	okDial := len(da) == 3 && cp.Path(da[1]) == gcall+"#1" && cp.Path(da[2]) == gcall+"#0"
	c.Check(okDial, R, "tglib.ConnectToAmf:dial-roles", ds[0].Pos(), "DialSCTP(local = stg endpoint, remote = amf endpoint)", "DialSCTP must bind the stg endpoint locally and dial the amf endpoint; local is %s, remote is %s", clip(cp.Path(da[1])), clip(cp.Path(da[2])))
	// getNgapIp: result #0 from (p0, p2), result #1 from (p1, p3)
	g := mustFunc(c, pTglib, "getNgapIp")
	gp := core.NewPather(g)
	type ep struct{ ip, port string }
	eps := map[string]*ep{}
	for _, b := range g.Blocks {
		for _, in := range b.Instrs {
			st, ok := in.(*ssa.Store)
			if !ok {
				continue
			}
			ap := gp.Path(st.Addr)
			if i := strings.LastIndex(ap, "."); i > 0 && strings.HasPrefix(ap, "local:*sctp.SCTPAddr#") {
				base, field := ap[:i], ap[i+1:]
				if eps[base] == nil {
					eps[base] = &ep{}
				}
				switch field {
				case "IPAddrs":
					eps[base].ip = gp.Path(st.Val)
				case "Port":
					eps[base].port = gp.Path(st.Val)
				}
			}
		}
	}
	var rets []string
	for _, b := range g.Blocks {
		if r, ok := b.Instrs[len(b.Instrs)-1].(*ssa.Return); ok && len(r.Results) == 3 {
			if k, isNil := r.Results[0].(*ssa.Const); isNil && k.Value == nil {
				continue
			}
			rets = []string{gp.Path(r.Results[0]), gp.Path(r.Results[1])}
		}
	}
	if len(rets) != 2 || eps[rets[0]] == nil || eps[rets[1]] == nil {
		c.SoftUndecided("getNgapIp: the two endpoint structures are not built in the recognised form (SCTPAddr{IPAddrs, Port} literals returned directly)")
		return
	}
	for i, want := range []struct{ ip, port, name string }{{"p0", "p2", "amf"}, {"p1", "p3", "stg"}} {
		e := eps[rets[i]]
		okIP := strings.Contains(e.ip, `call:net.ResolveIPAddr("ip",`+want.ip+`)#0`) && !strings.Contains(e.ip, "To4")
		c.Check(okIP && e.port == want.port, R, "tglib.getNgapIp:"+want.name+"-endpoint", g.Pos(), "resolver("+want.ip+") : "+want.port,
			"the %s endpoint must be the resolver's answer for its configured address and its configured port; it is %s : %s", want.name, clip(e.ip), e.port)
	}
}
