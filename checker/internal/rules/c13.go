package rules

import (
	"fmt"
	"go/token"
	"os"
	"sort"
	"strings"

	"golang.org/x/tools/go/ssa"

	"stgverif/internal/core"
)

func init() { Registry["C13"] = c13 }

// A8: straight-line interpretation of the NGAP builders: IE segments.
type ieSegment struct {
	ieType   string // e.g. UplinkNASTransportIEs
	id       int64
	hasID    bool
	crit     int64
	hasCrit  bool
	present  int64
	hasPres  bool
	alloc    string            // allocated alternative field name
	stores   map[string]string // path suffix below the alternative → value path
	appended bool
	pos      token.Pos
	order    int
}

type builderModel struct {
	fn        *ssa.Function
	pduPres   int64
	class     string // InitiatingMessage | SuccessfulOutcome | UnsuccessfulOutcome
	procCode  int64
	hasCode   bool
	msgCrit   int64
	hasMCrit  bool
	valuePres int64
	message   string
	segs      []*ieSegment
	allStores [][2]string // (addr path, value path) in order
	fromHeap  bool        // message and IE segments read from the returned value (c13heap.go)
}

func localType(path string) string {
	// "local:*ngapType.UplinkNASTransportIEs#0" → UplinkNASTransportIEs
	if !strings.HasPrefix(path, "local:*ngapType.") {
		return ""
	}
	s := strings.TrimPrefix(path, "local:*ngapType.")
	if i := strings.IndexAny(s, "#."); i >= 0 {
		s = s[:i]
	}
	return s
}

func buildBuilderModel(fn *ssa.Function) *builderModel {
	p := core.NewPather(fn)
	p.KeepConv = true // a narrowing conversion of an identifier is a truncation
	m := &builderModel{fn: fn}
	cur := map[string]*ieSegment{} // by ie local path
	order := 0
	for _, b := range rpoBlocks(fn) {
		for _, in := range b.Instrs {
			st, ok := in.(*ssa.Store)
			if !ok {
				continue
			}
			// ie copied into the one-element array literal of append(list, ie)
			if u, ok := st.Val.(*ssa.UnOp); ok && u.Op == token.MUL {
				if ia, ok := st.Addr.(*ssa.IndexAddr); ok {
					lp := p.Path(u.X)
					if seg := cur[lp]; seg != nil && appendedToIEList(p, ia.X) {
						seg.appended = true
						m.segs = append(m.segs, seg)
						delete(cur, lp)
						continue
					}
				}
			}
			ap, vp := p.Path(st.Addr), p.Path(st.Val)
			m.allStores = append(m.allStores, [2]string{ap, vp})
			k, isK := core.ConstInt(st.Val)
			// message level
			for _, cls := range []string{"InitiatingMessage", "SuccessfulOutcome", "UnsuccessfulOutcome"} {
				if strings.HasSuffix(ap, "."+cls) && strings.HasPrefix(vp, "local:*ngapType."+cls) {
					m.class = cls
				}
				if strings.HasSuffix(ap, "."+cls+".ProcedureCode.Value") && isK {
					m.procCode, m.hasCode = k, true
				}
				if strings.HasSuffix(ap, "."+cls+".Criticality.Value") && isK {
					m.msgCrit, m.hasMCrit = k, true
				}
				if strings.HasSuffix(ap, "."+cls+".Value.Present") && isK {
					m.valuePres = k
				}
				if i := strings.Index(ap, "."+cls+".Value."); i >= 0 && strings.HasPrefix(vp, "local:*ngapType.") {
					rest := ap[i+len(cls)+8:]
					if !strings.Contains(rest, ".") {
						m.message = rest
					}
				}
			}
			if strings.HasSuffix(ap, ".Present") && isK && !strings.Contains(ap, ".Value.") && !strings.HasPrefix(ap, "local:") && m.pduPres == 0 {
				m.pduPres = k
			}
			// IE segments: stores through a local of type <X>IEs
			base := ap
			if strings.HasPrefix(ap, "local:*ngapType.") {
				if i := strings.Index(ap[16:], "."); i >= 0 {
					base = ap[:16+i]
				}
			}
			t := localType(base)
			if t == "" || !(strings.HasSuffix(t, "IEs")) {
				continue
			}
			if ap == base {
				// ie = T{} : reset; a segment left open was never appended
				if seg := cur[base]; seg != nil {
					m.segs = append(m.segs, seg)
				}
				delete(cur, base)
				continue
			}
			seg := cur[base]
			if seg == nil {
				order++
				seg = &ieSegment{ieType: t, stores: map[string]string{}, pos: st.Pos(), order: order}
				cur[base] = seg
			}
			rest := ap[len(base)+1:]
			switch {
			case rest == "Id.Value" && isK:
				seg.id, seg.hasID = k, true
			case rest == "Criticality.Value" && isK:
				seg.crit, seg.hasCrit = k, true
			case rest == "Value.Present" && isK:
				seg.present, seg.hasPres = k, true
			case strings.HasPrefix(rest, "Value."):
				sub := rest[6:]
				if !strings.Contains(sub, ".") {
					seg.alloc = sub
				} else {
					seg.stores[sub] = vp
				}
			}
		}
	}
	// segments never appended
	var lps []string
	for lp := range cur {
		lps = append(lps, lp)
	}
	sort.Strings(lps)
	for _, lp := range lps {
		m.segs = append(m.segs, cur[lp])
	}
	sort.Slice(m.segs, func(i, j int) bool { return m.segs[i].order < m.segs[j].order })
	if m.class == "" || m.message == "" {
		// not the statement form: read the message from the value the builder returns
		heapBuilderModel(fn, m)
	}
	return m
}

// rpoBlocks returns the blocks in reverse postorder, visiting the false/exit successor first
// so that then-branches precede else-branches and loop bodies precede loop exits.
func rpoBlocks(fn *ssa.Function) []*ssa.BasicBlock {
	seen := map[*ssa.BasicBlock]bool{}
	var post []*ssa.BasicBlock
	var dfs func(b *ssa.BasicBlock)
	dfs = func(b *ssa.BasicBlock) {
		seen[b] = true
		for i := len(b.Succs) - 1; i >= 0; i-- {
			if !seen[b.Succs[i]] {
				dfs(b.Succs[i])
			}
		}
		post = append(post, b)
	}
	if len(fn.Blocks) > 0 {
		dfs(fn.Blocks[0])
	}
	for i, j := 0, len(post)-1; i < j; i, j = i+1, j-1 {
		post[i], post[j] = post[j], post[i]
	}
	return post
}

// appendedToIEList: the array (slice literal backing store) is sliced, handed to append, and the
// result stored in a ProtocolIEs.List.
func appendedToIEList(p *core.Pather, arr ssa.Value) bool {
	for _, r := range core.Referrers(arr) {
		sl, ok := r.(*ssa.Slice)
		if !ok {
			continue
		}
		for _, r2 := range core.Referrers(sl) {
			call, ok := r2.(*ssa.Call)
			if !ok {
				continue
			}
			if b, ok := call.Call.Value.(*ssa.Builtin); !ok || b.Name() != "append" {
				continue
			}
			for _, r3 := range core.Referrers(call) {
				if st, ok := r3.(*ssa.Store); ok && strings.HasSuffix(p.Path(st.Addr), ".ProtocolIEs.List") {
					return true
				}
			}
		}
	}
	return false
}

func c13(c *core.Ctx) map[string]interface{} {
	c.Explanation = "Static builder-discipline and parameter-flow check of the gNB-side NGAP builders (C13). Decided: (R0.nilglobal) as for C03; (R13.triple) in every IE segment of every Build* function the IE id constant, the Present constant and the allocated alternative name the same IE of that message's IE set, the alternative's referenceFieldValue equals the id (with R3.tag), and the segment is appended to the message; (a builder that is not written as stores through an IE variable followed by append - nested composite literals, the IE list as one slice literal - is folded by the abstract evaluator and the message is read from the value it returns; R13.class, R13.triple and R13.ie then read that) (R13.class) pdu.Present, the allocated outcome, the procedure code, Value.Present and the allocated message agree with each other and with the elementary-procedure table of TS 38.413 9.4.4 (code, class, criticality); (R13.wrap) for the build-and-encode wrappers of tglib/packet.go: the wrapper hands its parameters to the builder in order and returns ngap.Encoder's result unchanged, the builder stores each identifier parameter unconverted in the IE of its role (read from the builder's stores, or - when the message is put together by a helper or as a literal - from the message the folded builder returns, where the parameter is looked for by name on every path) (AMF-UE-NGAP-ID, RAN-UE-NGAP-ID, NAS-PDU, PDUSessionID, gNB id/length/name, transport address via IPAddressToNgap) and nowhere else; (R13.ie) the messages main sends contain every mandatory IE of TS 38.413 9.2 exactly once with the tabulated criticality; (R13.plmn) PLMN identities in the builders behind the wrappers come from TestPlmn (the PLMN announced at NG Setup) - the hard-coded PLMN of BuildHandoverNotify is a listed known finding. (R13.pure) the builders and wrappers compute from their arguments and from TestPlmn (written only by BuildNGSetupRequest) alone: no other package-level cache, skeleton or scratch state is reachable from them, so the values found in an encoding are those of this call and not of an earlier one. (R11.plmn, shared with C11) BuildNGSetupRequest remembers the caller's PLMN in TestPlmn and every PLMN field of the NG Setup Request is TestPlmn. NOT decided: that encoding succeeds for every in-range argument (C03); PLMNs of builders no wrapper uses. (components) the rule set of C03 (APER encoder) is run as part of this check: the arguments are found in the encoding only if the encoder is right."
	c.Assumptions = []string{"TS 38.413 9.2 IE tables for the 7 messages main sends were transcribed by hand"}
	r0nilglobal(c, ngapEntries(c)...)
	s := buildSchema(c)
	sp := c.P.SSAPkg(pBuild)
	var builders []*ssa.Function
	for _, f := range allFuncsOf(sp) {
		if strings.HasPrefix(f.Name(), "Build") && f.Signature.Results().Len() == 1 && strings.HasSuffix(f.Signature.Results().At(0).Type().String(), "ngapType.NGAPPDU") {
			builders = append(builders, f)
		}
	}
	if len(builders) < 40 {
		c.Undecided("only %d Build* functions found (expected about 52)", len(builders))
	}
	models := map[string]*builderModel{}
	for _, f := range builders {
		models[f.Name()] = buildBuilderModel(f)
		c.Analysed(core.FuncName(f))
	}
	r13triple(c, s, models)
	r13class(c, s, models)
	r13wrap(c, models)
	r13ie(c, models)
	r13plmn(c, models)
	// "the PLMN being the one announced at NG Setup": how BuildNGSetupRequest remembers it (shared with C11)
	r11plmn(c)
	r13ip(c)
	r13range(c)
	r13pure(c)
	r3types(c, s)
	include(c, "C03")
	return map[string]interface{}{"builders": len(builders)}
}

func r13triple(c *core.Ctx, s *schema, models map[string]*builderModel) {
	const R = "R13.triple"
	c.Rule(R, "every IE segment: Id constant, Present constant and allocated alternative denote the same IE of the message's IE set; the segment is appended")
	var names []string
	for n := range models {
		names = append(names, n)
	}
	sort.Strings(names)
	nSeg := 0
	for _, n := range names {
		m := models[n]
		ord := map[string]int{}
		for _, seg := range m.segs {
			nSeg++
			vt := s.Types[seg.ieType+"Value"]
			ord[seg.alloc]++
			key := fmt.Sprintf("ngapTestpacket.%s:ie:%s", n, seg.alloc)
			if ord[seg.alloc] > 1 {
				key += fmt.Sprintf("#%d", ord[seg.alloc])
			}
			if os.Getenv("VERIF_DEBUG") != "" {
				fmt.Printf("SEG %s %s id=%d crit=%d pres=%d alloc=%s appended=%v\n", n, seg.ieType, seg.id, seg.crit, seg.present, seg.alloc, seg.appended)
			}
			if vt == nil {
				c.SoftUndecided("%s: IE type %sValue not in the schema", n, seg.ieType)
				continue
			}
			if !seg.hasID || !seg.hasPres || seg.alloc == "" {
				c.Fail(R, key, seg.pos, "incomplete IE segment in %s (id set %v, present set %v, alternative allocated %q)", n, seg.hasID, seg.hasPres, seg.alloc)
				continue
			}
			// field at index present
			var f *schemaField
			if seg.present >= 1 && int(seg.present) < len(vt.Fields) {
				f = &vt.Fields[seg.present]
			}
			switch {
			case f == nil:
				c.Fail(R, key, seg.pos, "Present = %d is not an alternative of %sValue", seg.present, seg.ieType)
			case f.Name != seg.alloc:
				c.Fail(R, key, seg.pos, "Present selects alternative %s but the builder allocates %s: the encoder would dereference a nil alternative or refuse the IE", f.Name, seg.alloc)
			case f.Tag.RefValue == nil || *f.Tag.RefValue != seg.id:
				rv := int64(-1)
				if f.Tag.RefValue != nil {
					rv = *f.Tag.RefValue
				}
				c.Fail(R, key, seg.pos, "IE id %d does not match alternative %s (its id is %d): the encoder refuses the IE (\"reference value ... not match\")", seg.id, f.Name, rv)
			case !seg.appended && segUsesParam(seg):
				c.Fail(R, key, seg.pos, "the IE %s carries an argument of %s but is never appended to the message", seg.alloc, n)
			case !seg.appended:
				c.Except(R, key, seg.pos, "segment built from constants only and never appended: dead stores, nothing reaches the encoding")
			default:
				c.Ok(R, key, seg.pos, fmt.Sprintf("id %d, present %d, alternative %s", seg.id, seg.present, seg.alloc))
			}
		}
	}
	c.Sites(nSeg)
	c.Floor(R, nSeg, 150)
}

// isRangeElem: p[iv] or p[(iv+1)] - the element of a range loop over the parameter.
func isRangeElem(vp, pi string) bool {
	if !strings.HasPrefix(vp, pi+"[") || !strings.HasSuffix(vp, "]") {
		return false
	}
	idx := vp[len(pi)+1 : len(vp)-1]
	idx = strings.TrimSuffix(strings.TrimPrefix(idx, "("), ")")
	idx = strings.TrimSuffix(idx, "+1")
	return strings.HasPrefix(idx, "iv") && !strings.ContainsAny(idx[2:], "+-*&|^%()")
}

// mentionsParam: the path mentions parameter pi as a whole token.
func mentionsParam(vp, pi string) bool {
	for i := 0; i+len(pi) <= len(vp); i++ {
		if vp[i:i+len(pi)] != pi {
			continue
		}
		if i > 0 && (isIdentByte(vp[i-1])) {
			continue
		}
		if j := i + len(pi); j < len(vp) && isIdentByte(vp[j]) {
			continue
		}
		return true
	}
	return false
}

func isIdentByte(b byte) bool {
	return b == '_' || b == '#' || (b >= '0' && b <= '9') || (b >= 'a' && b <= 'z') || (b >= 'A' && b <= 'Z')
}

func segUsesParam(seg *ieSegment) bool {
	for _, v := range seg.stores {
		if isParamPath(v) {
			return true
		}
	}
	return false
}

func isParamPath(v string) bool {
	if len(v) < 2 || v[0] != 'p' {
		return false
	}
	for i := 1; i < len(v); i++ {
		if v[i] < '0' || v[i] > '9' {
			return v[i] == '[' || v[i] == '.'
		}
	}
	return true
}

func r13class(c *core.Ctx, s *schema, models map[string]*builderModel) {
	const R = "R13.class"
	c.Rule(R, "pdu.Present / allocated outcome / procedure code / Value.Present / allocated message agree and match TS 38.413 9.4.4")
	type pm struct {
		class string
		code  int64
		crit  int64
	}
	table := map[string]pm{}
	for _, p := range t38413Proc {
		table[p.Initiating] = pm{"InitiatingMessage", p.Code, p.Criticality}
		if p.Successful != "" {
			table[p.Successful] = pm{"SuccessfulOutcome", p.Code, p.Criticality}
		}
		if p.Unsuccess != "" {
			table[p.Unsuccess] = pm{"UnsuccessfulOutcome", p.Code, p.Criticality}
		}
	}
	var names []string
	for n := range models {
		names = append(names, n)
	}
	sort.Strings(names)
	for _, n := range names {
		m := models[n]
		key := "ngapTestpacket." + n + ":message-class"
		if m.class == "" || m.message == "" {
			if len(m.allStores) <= 1 {
				c.Except(R, key, m.fn.Pos(), "declared-but-empty stub (no message built)")
			} else {
				c.SoftUndecided("%s: message class / message not recognised", n)
			}
			continue
		}
		want, ok := table[m.message]
		if !ok {
			c.Fail(R, key, m.fn.Pos(), "message %s is not in the elementary procedure table", m.message)
			continue
		}
		presWant := map[string]int64{"InitiatingMessage": 1, "SuccessfulOutcome": 2, "UnsuccessfulOutcome": 3}[m.class]
		vt := s.Types[m.class+"Value"]
		fieldOK := vt != nil && m.valuePres >= 1 && int(m.valuePres) < len(vt.Fields) && vt.Fields[m.valuePres].Name == m.message
		var errs []string
		if m.pduPres != presWant {
			errs = append(errs, fmt.Sprintf("pdu.Present=%d but a %s is allocated", m.pduPres, m.class))
		}
		if m.class != want.class {
			errs = append(errs, fmt.Sprintf("%s is a %s of its procedure, built as %s", m.message, want.class, m.class))
		}
		if !m.hasCode || m.procCode != want.code {
			errs = append(errs, fmt.Sprintf("procedure code %d, TS 38.413 gives %d for %s", m.procCode, want.code, m.message))
		}
		if !fieldOK {
			errs = append(errs, fmt.Sprintf("Value.Present=%d does not select the allocated message %s", m.valuePres, m.message))
		}
		if isMainBuilder(n) && (!m.hasMCrit || m.msgCrit != want.crit) {
			errs = append(errs, fmt.Sprintf("criticality %d, TS 38.413 9.4.4 gives %d", m.msgCrit, want.crit))
		}
		c.Check(len(errs) == 0, R, key, m.fn.Pos(), fmt.Sprintf("%s %s code %d", m.class, m.message, want.code), "%s: %s", n, strings.Join(errs, "; "))
	}
}

// wrapper → builder, and the role of each builder parameter.
type wrapSpec struct {
	wrapper, builder string
	roles            []string // per builder parameter: amf | ran | nas | pdu | ipv4 | "" (unchecked)
}

var wrapSpecs = []wrapSpec{
	{"GetInitialUEMessage", "BuildInitialUEMessage", []string{"ran", "nas", ""}},
	{"GetUplinkNASTransport", "BuildUplinkNasTransport", []string{"amf", "ran", "nas"}},
	{"GetInitialContextSetupResponse", "BuildInitialContextSetupResponseForRegistraionTest", []string{"amf", "ran"}},
	{"GetInitialContextSetupResponseForServiceRequest", "BuildInitialContextSetupResponse", []string{"amf", "ran", "pdu", "ipv4", ""}},
	{"GetPDUSessionResourceSetupResponse", "BuildPDUSessionResourceSetupResponseForRegistrationTest", []string{"amf", "ran", "pdu", "ipv4"}},
	{"GetUEContextReleaseComplete", "BuildUEContextReleaseComplete", []string{"amf", "ran", "pdulist"}},
	{"GetUEContextReleaseRequest", "BuildUEContextReleaseRequest", []string{"amf", "ran", "pdulist"}},
	{"GetPDUSessionResourceReleaseResponse", "BuildPDUSessionResourceReleaseResponseForReleaseTest", []string{"amf", "ran", "pdu"}},
	{"GetPathSwitchRequest", "BuildPathSwitchRequest", []string{"", "ran"}},
	{"GetHandoverRequired", "BuildHandoverRequired", []string{"amf", "ran", "", ""}},
	{"GetHandoverRequestAcknowledge", "BuildHandoverRequestAcknowledge", []string{"amf", "ran"}},
	{"GetHandoverNotify", "BuildHandoverNotify", []string{"amf", "ran"}},
	{"GetPDUSessionResourceSetupResponseForPaging", "BuildPDUSessionResourceSetupResponseForPaging", []string{"amf", "ran", "ipv4"}},
}

func r13wrap(c *core.Ctx, models map[string]*builderModel) {
	const R = "R13.wrap"
	c.Rule(R, "wrappers pass their parameters in order and return ngap.Encoder's result; builders store each identifier parameter unconverted in the IE of its role and nowhere else")
	for _, w := range wrapSpecs {
		fn := c.P.Func(pTglib, w.wrapper)
		if fn == nil {
			c.Fail(R, "tglib."+w.wrapper, token.NoPos, "wrapper not found")
			continue
		}
		c.Analysed(pTglib + "." + w.wrapper)
		p := core.NewPather(fn)
		calls := core.CallsTo(fn, pBuild+"."+w.builder)
		key := "tglib." + w.wrapper
		if len(calls) != 1 {
			c.Fail(R, key+":builder", fn.Pos(), "%s must build its message with %s (found %d calls)", w.wrapper, w.builder, len(calls))
			continue
		}
		args := calls[0].Common().Args
		okArgs := true
		for i := 0; i < len(args) && i < len(fn.Params); i++ {
			if w.roles[i] == "" && i >= len(fn.Params) {
				continue
			}
			if i < len(fn.Params) && p.Path(args[i]) != fmt.Sprintf("p%d", i) {
				// trailing constant arguments (e.g. nil lists) are allowed
				if _, isK := args[i].(*ssa.Const); !isK {
					okArgs = false
				}
			}
		}
		c.Check(okArgs, R, key+":passes-parameters-in-order", calls[0].Pos(), "builder(p0, p1, …)", "%s must hand its parameters to %s unchanged and in order", w.wrapper, w.builder)
		// returns Encoder(message) directly
		enc := core.CallsTo(fn, pNgap+".Encoder")
		okRet := len(enc) == 1
		if okRet {
			ev := p.Path(enc[0].(*ssa.Call))
			okRet = false
			for _, b := range fn.Blocks {
				for _, in := range b.Instrs {
					if r, ok := in.(*ssa.Return); ok && len(r.Results) == 2 && p.Path(r.Results[0]) == ev+"#0" && p.Path(r.Results[1]) == ev+"#1" {
						okRet = true
					}
				}
			}
		}
		c.Check(okRet, R, key+":returns-encoder-result", fn.Pos(), "return ngap.Encoder(message)", "%s must return the bytes and the error of ngap.Encoder unchanged (an out-of-range identifier must surface as that error)", w.wrapper)
		// builder roles
		m := models[w.builder]
		if m == nil {
			c.Fail(R, key+":builder-model", fn.Pos(), "builder %s not modelled", w.builder)
			continue
		}
		for i, role := range w.roles {
			if role == "" {
				continue
			}
			pi := fmt.Sprintf("p%d", i)
			bkey := fmt.Sprintf("ngapTestpacket.%s:param%d(%s)", w.builder, i, role)
			var hits, other []string
			for _, sv := range m.allStores {
				ap, vp := sv[0], sv[1]
				// the length of a list parameter (sizing the IE list made for it) is not a use of its elements
				uses := mentionsParam(strings.ReplaceAll(vp, "call:builtin.len("+pi+")", "len"), pi)
				if !uses {
					continue
				}
				okRole := false
				switch role {
				case "amf":
					okRole = strings.HasSuffix(ap, ".Value.AMFUENGAPID.Value") && vp == pi
				case "ran":
					okRole = strings.HasSuffix(ap, ".Value.RANUENGAPID.Value") && vp == pi
				case "nas":
					okRole = strings.HasSuffix(ap, ".Value.NASPDU.Value") && vp == pi
				case "pdu":
					okRole = strings.HasSuffix(ap, ".PDUSessionID.Value") && vp == pi
				case "pdulist":
					okRole = strings.HasSuffix(ap, ".PDUSessionID.Value") && isRangeElem(vp, pi)
				case "ipv4":
					okRole = true // checked below through the transfer helper
				}
				if okRole {
					hits = append(hits, ap)
				} else {
					other = append(other, ap+" := "+vp)
				}
			}
			if role == "ipv4" {
				ok, why := ipv4Reaches(m.fn, i, 3, true)
				c.Check(ok, R, bkey, m.fn.Pos(), "reaches GTPTunnel.TransportLayerAddress := IPAddressToNgap(ipv4, \"\") through the response transfer", "the GTP tunnel address parameter of %s must reach ngapConvert.IPAddressToNgap(ipv4, \"\") in the response transfer: %s", w.builder, why)
				continue
			}
			if !(len(hits) >= 1 && len(other) == 0) {
				// the statements are not in the form read above (the message is put together by a helper, or as
				// a literal): decide on the message the builder returns, parameter by name (c13heap.go)
				if ok, detail, usable := heapRoleCheck(m.fn, pi, role); usable {
					c.Check(ok, R, bkey, m.fn.Pos(), "on every path the returned message holds the parameter, unconverted, in the IE of its role and nowhere else",
						"parameter %d of %s (%s) must be stored unconverted in the IE of its role and nowhere else: %s", i, w.builder, role, detail)
					continue
				}
			}
			c.Check(len(hits) >= 1 && len(other) == 0, R, bkey, m.fn.Pos(), fmt.Sprintf("stored unconverted in %d IE(s) of its role", len(hits)), "parameter %d of %s (%s) must be stored unconverted in the IE of its role and nowhere else; role stores: %v, other uses: %v", i, w.builder, role, hits, other)
		}
	}
	// GetNGSetupRequest: patches gNB id, bit length and name into IE 0 / IE 1
	fn := mustFunc(c, pTglib, "GetNGSetupRequest")
	p := core.NewPather(fn)
	got := map[string]string{}
	for _, b := range fn.Blocks {
		for _, in := range b.Instrs {
			if st, ok := in.(*ssa.Store); ok {
				got[p.Path(st.Addr)] = p.Path(st.Val)
			}
		}
	}
	bld := "call:" + pBuild + ".BuildNGSetupRequest(p1)"
	ie0 := bld + ".InitiatingMessage.Value.NGSetupRequest.ProtocolIEs.List[0].Value.GlobalRANNodeID.GlobalGNBID.GNBID.GNBID"
	ie1 := bld + ".InitiatingMessage.Value.NGSetupRequest.ProtocolIEs.List[1].Value.RANNodeName.Value"
	// the message may be held in a local; compare by suffix
	find := func(suffix string) string {
		for k, v := range got {
			if strings.HasSuffix(k, suffix) {
				return v
			}
		}
		return ""
	}
	_ = ie0
	_ = ie1
	gb := find(".Value.GlobalRANNodeID.GlobalGNBID.GNBID.GNBID.Bytes")
	// the caller's slice or a fresh copy of it
	okBytes := gb == "p0" || gb == "call:builtin.append(nil,p0)" || (strings.HasPrefix(gb, "call:builtin.append(local:*[0]") && strings.HasSuffix(gb, ",p0)"))
	elemStore := ""
	for k, v := range got {
		if strings.Contains(k, ".GNBID.Bytes[") || (gb != "" && gb != "p0" && strings.HasPrefix(k, gb+"[")) {
			elemStore = k + " := " + v
		}
	}
	c.Check(okBytes && elemStore == "", R, "tglib.GetNGSetupRequest:gnb-id", fn.Pos(), "GNB-ID octets = gnbId parameter", "the gNB id octets must be the caller's value unchanged, are %q %s", gb, elemStore)
	c.Check(find(".Value.GlobalRANNodeID.GlobalGNBID.GNBID.GNBID.BitLength") == "p2", R, "tglib.GetNGSetupRequest:gnb-bitlength", fn.Pos(), "bit length = bitlength parameter", "the gNB id bit length must be the caller's value unchanged, is %q", find(".Value.GlobalRANNodeID.GlobalGNBID.GNBID.GNBID.BitLength"))
	c.Check(find(".Value.RANNodeName.Value") == "p3", R, "tglib.GetNGSetupRequest:ran-node-name", fn.Pos(), "RANNodeName = name parameter", "the RAN node name must be the caller's value unchanged, is %q", find(".Value.RANNodeName.Value"))
	// positional access List[0]/List[1] is justified by the builder's segment order
	if m := models["BuildNGSetupRequest"]; m != nil && len(m.segs) >= 2 {
		c.Check(m.segs[0].alloc == "GlobalRANNodeID" && m.segs[1].alloc == "RANNodeName", R, "ngapTestpacket.BuildNGSetupRequest:ie-order", m.fn.Pos(), "IE 0 = GlobalRANNodeID, IE 1 = RANNodeName", "GetNGSetupRequest patches List[0] and List[1]: the builder must emit GlobalRANNodeID first and RANNodeName second (it emits %s, %s)", m.segs[0].alloc, m.segs[1].alloc)
	}
	calls := core.CallsTo(fn, pBuild+".BuildNGSetupRequest")
	c.Check(len(calls) == 1 && p.Path(calls[0].Common().Args[0]) == "p1", R, "tglib.GetNGSetupRequest:plmn", fn.Pos(), "BuildNGSetupRequest(mobilePLMN)", "the PLMN parameter must be handed to BuildNGSetupRequest unchanged")
}

// ipv4Reaches: parameter idx of fn is handed, unchanged, down a chain of same-package calls
// whose results are kept (stored into a *Transfer field / marshalled and returned) to
// ngapConvert.IPAddressToNgap(p, "") whose result is stored in GTPTunnel.TransportLayerAddress.
func ipv4Reaches(fn *ssa.Function, idx, depth int, top bool) (bool, string) {
	p := core.NewPather(fn)
	pi := fmt.Sprintf("p%d", idx)
	for _, ci := range core.Calls(fn) {
		callee := ci.Common().StaticCallee()
		if callee == nil {
			continue
		}
		for ai, a := range ci.Common().Args {
			if p.Path(a) != pi {
				continue
			}
			if core.FuncName(callee) == pNgapC+".IPAddressToNgap" {
				if ai != 0 {
					return false, "the address is passed as the IPv6 argument"
				}
				if s, ok := core.ConstString(ci.Common().Args[1]); !ok || s != "" {
					return false, "the IPv6 argument is not the empty string"
				}
				v, _ := ci.(*ssa.Call)
				for _, r := range core.Referrers(v) {
					if st, ok := r.(*ssa.Store); ok && strings.HasSuffix(p.Path(st.Addr), ".GTPTunnel.TransportLayerAddress") {
						return true, ""
					}
				}
				return false, "the converted address is not stored in GTPTunnel.TransportLayerAddress"
			}
			if depth == 0 || callee.Pkg != fn.Pkg {
				continue
			}
			ok, why := ipv4Reaches(callee, ai, depth-1, false)
			if !ok {
				if why == "" {
					why = "not used in " + callee.Name()
				}
				return false, why
			}
			// the callee's result must be kept
			v, _ := ci.(*ssa.Call)
			kept := false
			// a helper that puts the whole message together: its result is the builder's message
			wholeMsg := callee.Signature.Results().Len() == 1 && strings.HasSuffix(callee.Signature.Results().At(0).Type().String(), "ngapType.NGAPPDU")
			refs := core.Referrers(v)
			for k := 0; k < len(refs); k++ {
				switch x := refs[k].(type) {
				case *ssa.ChangeType:
					refs = append(refs, core.Referrers(x)...)
				case *ssa.Convert:
					refs = append(refs, core.Referrers(x)...)
				case *ssa.Store:
					ap := p.Path(x.Addr)
					if !top || strings.HasSuffix(ap, "Transfer") || wholeMsg {
						kept = true
					}
				case *ssa.Call, *ssa.Return, *ssa.MakeInterface, *ssa.Extract:
					if !top || wholeMsg {
						kept = true
					}
				}
			}
			if !kept {
				return false, "the result of " + callee.Name() + " is dropped"
			}
			return true, ""
		}
	}
	return false, "the parameter is not handed on"
}

// T-38413-IE for the messages main sends: IE (field name), mandatory, criticality (0 reject, 1 ignore).
type ieRow struct {
	name string
	mand bool
	crit int64
}

var t38413IE = map[string][]ieRow{
	"NGSetupRequest": {{"GlobalRANNodeID", true, 0}, {"RANNodeName", false, 1}, {"SupportedTAList", true, 0}, {"DefaultPagingDRX", true, 1}, {"UERetentionInformation", false, 1}},
	"InitialUEMessage": {{"RANUENGAPID", true, 0}, {"NASPDU", true, 0}, {"UserLocationInformation", true, 0}, {"RRCEstablishmentCause", true, 1}, {"FiveGSTMSI", false, 0}, {"AMFSetID", false, 1}, {"UEContextRequest", false, 1}, {"AllowedNSSAI", false, 0}},
	"UplinkNASTransport": {{"AMFUENGAPID", true, 0}, {"RANUENGAPID", true, 0}, {"NASPDU", true, 0}, {"UserLocationInformation", true, 1}},
	"InitialContextSetupResponse": {{"AMFUENGAPID", true, 1}, {"RANUENGAPID", true, 1}, {"PDUSessionResourceSetupListCxtRes", false, 1}, {"PDUSessionResourceFailedToSetupListCxtRes", false, 1}, {"CriticalityDiagnostics", false, 1}},
	"PDUSessionResourceSetupResponse": {{"AMFUENGAPID", true, 1}, {"RANUENGAPID", true, 1}, {"PDUSessionResourceSetupListSURes", false, 1}, {"PDUSessionResourceFailedToSetupListSURes", false, 1}, {"CriticalityDiagnostics", false, 1}},
	"PDUSessionResourceReleaseResponse": {{"AMFUENGAPID", true, 1}, {"RANUENGAPID", true, 1}, {"PDUSessionResourceReleasedListRelRes", true, 1}, {"UserLocationInformation", false, 1}, {"CriticalityDiagnostics", false, 1}},
	"UEContextReleaseRequest": {{"AMFUENGAPID", true, 0}, {"RANUENGAPID", true, 0}, {"PDUSessionResourceListCxtRelReq", false, 0}, {"Cause", true, 1}},
	"UEContextReleaseComplete": {{"AMFUENGAPID", true, 1}, {"RANUENGAPID", true, 1}, {"UserLocationInformation", false, 1}, {"InfoOnRecommendedCellsAndRANNodesForPaging", false, 1}, {"PDUSessionResourceListCxtRelCpl", false, 0}, {"CriticalityDiagnostics", false, 1}},
}

var mainBuilders = []string{"BuildNGSetupRequest", "BuildInitialUEMessage", "BuildUplinkNasTransport", "BuildInitialContextSetupResponseForRegistraionTest",
	"BuildInitialContextSetupResponse", "BuildPDUSessionResourceSetupResponseForRegistrationTest", "BuildPDUSessionResourceReleaseResponseForReleaseTest", "BuildUEContextReleaseComplete",
	"BuildUEContextReleaseRequest"}

func isMainBuilder(n string) bool {
	for _, b := range mainBuilders {
		if b == n {
			return true
		}
	}
	return false
}

func r13ie(c *core.Ctx, models map[string]*builderModel) {
	const R = "R13.ie"
	c.Rule(R, "messages main sends: every mandatory IE of TS 38.413 9.2 present exactly once, IEs in table order, tabulated criticality")
	for _, bn := range mainBuilders {
		m := models[bn]
		if m == nil {
			c.Fail(R, "ngapTestpacket."+bn, token.NoPos, "builder used by main not found")
			continue
		}
		rows, ok := t38413IE[m.message]
		if !ok {
			c.SoftUndecided("%s builds %s, for which no IE table is compiled in", bn, m.message)
			continue
		}
		count := map[string]int{}
		pos := map[string]int{}
		for i, seg := range m.segs {
			if !seg.appended {
				continue
			}
			count[seg.alloc]++
			if _, seen := pos[seg.alloc]; !seen {
				pos[seg.alloc] = i
			}
		}
		rowIdx := map[string]int{}
		for i, r := range rows {
			rowIdx[r.name] = i
			key := fmt.Sprintf("ngapTestpacket.%s:%s", bn, r.name)
			n := count[r.name]
			if r.mand && n != 1 {
				c.Fail(R, key, m.fn.Pos(), "mandatory IE %s of %s appears %d times (TS 38.413 9.2 requires exactly one)", r.name, m.message, n)
				continue
			}
			if n > 1 {
				c.Fail(R, key, m.fn.Pos(), "IE %s appears %d times", r.name, n)
				continue
			}
			if n == 1 {
				seg := m.segs[pos[r.name]]
				c.Check(seg.hasCrit && seg.crit == r.crit, R, key, seg.pos, fmt.Sprintf("criticality %d", r.crit), "IE %s of %s must have criticality %s (TS 38.413 9.2), the builder sets %d", r.name, m.message, map[int64]string{0: "reject", 1: "ignore", 2: "notify"}[r.crit], seg.crit)
			} else {
				c.Ok(R, key, m.fn.Pos(), "optional, not sent")
			}
		}
		// order and unknown IEs
		last := -1
		okOrder := true
		for _, seg := range m.segs {
			ri, known := rowIdx[seg.alloc]
			if !known {
				c.Fail(R, fmt.Sprintf("ngapTestpacket.%s:%s:unknown", bn, seg.alloc), seg.pos, "IE %s is not in the IE table of %s", seg.alloc, m.message)
				continue
			}
			if ri < last {
				okOrder = false
			}
			last = ri
		}
		c.Check(okOrder, R, "ngapTestpacket."+bn+":ie-order", m.fn.Pos(), "table order", "the IEs of %s must be sent in the order of TS 38.413 9.2", m.message)
	}
}

func r13plmn(c *core.Ctx, models map[string]*builderModel) {
	const R = "R13.plmn"
	c.Rule(R, "every PLMN identity written by package ngapTestpacket comes from TestPlmn, and TestPlmn is set only by init and from BuildNGSetupRequest's argument")
	tp := "global:" + pBuild + ".TestPlmn"
	sp := c.P.SSAPkg(pBuild)
	n := 0
	ord := ordinals{}
	for _, fn := range allFuncsOf(sp) {
		if fn.Blocks == nil {
			continue
		}
		p := core.NewPather(fn)
		cnt, bad := 0, 0
		for _, b := range fn.Blocks {
			for _, in := range b.Instrs {
				st, ok := in.(*ssa.Store)
				if !ok {
					continue
				}
				ap := p.Path(st.Addr)
				isPlmnField := strings.HasSuffix(ap, ".PLMNIdentity.Value") || strings.HasSuffix(ap, ".PLMNIdentity") ||
					strings.HasSuffix(derefNamed(st.Addr.Type()), "ngapType.PLMNIdentity")
				if strings.HasPrefix(ap, tp) {
					// the announced PLMN itself
					vp := p.Path(st.Val)
					okSet := strings.HasPrefix(fn.Name(), "init") || (fn.Name() == "BuildNGSetupRequest" && (vp == "p0" || vp == "convert(p0)"))
					if _, isK := core.ConstString(st.Val); isK && strings.HasPrefix(fn.Name(), "init") {
						okSet = true
					}
					c.Check(okSet, R, "ngapTestpacket."+fn.Name()+":sets-TestPlmn", st.Pos(), "TestPlmn := "+vp, "TestPlmn may only be set by init and from BuildNGSetupRequest's mobilePLMN argument unchanged; %s sets it to %s", fn.Name(), vp)
					n++
					continue
				}
				if !isPlmnField {
					continue
				}
				vp := p.Path(st.Val)
				if vp == "nil" { // zero-value initialisation of a composite
					continue
				}
				cnt++
				n++
				if vp != tp && vp != tp+".Value" {
					bad++
					c.Fail(R, ord.next(fmt.Sprintf("ngapTestpacket.%s:plmn:%s", fn.Name(), lastSegments(ap, 3))), st.Pos(), "%s sets %s to %s instead of the PLMN announced at NG Setup (TestPlmn)", fn.Name(), lastSegments(ap, 3), vp)
				}
			}
		}
		if cnt > 0 && bad == 0 {
			c.Ok(R, "ngapTestpacket."+fn.Name()+":plmn", fn.Pos(), fmt.Sprintf("%d PLMN stores, all from TestPlmn", cnt))
		}
	}
	c.Floor(R, n, 40)
}

func r13ip(c *core.Ctx) {
	const R = "R13.ip"
	c.Rule(R, "IPAddressToNgap(ipv4, \"\") yields the 4 octets of net.ParseIP(ipv4).To4() with bit length 32")
	fn := mustFunc(c, pNgapC, "IPAddressToNgap")
	if fn == nil {
		return
	}
	c.Analysed(core.FuncName(fn))
	r13ipX(c, R)
}

func lastSegments(path string, n int) string {
	parts := strings.Split(path, ".")
	if len(parts) > n {
		parts = parts[len(parts)-n:]
	}
	return strings.Join(parts, ".")
}

// R13.range: the INTEGER encoder refuses a value outside a non-extensible range instead of
// encoding it modulo the range (AMF-UE-NGAP-ID, RAN-UE-NGAP-ID and PDUSessionID are such types,
// R3.types).
func r13range(c *core.Ctx) {
	const R = "R13.range"
	c.Rule(R, "appendInteger: every path with value < lb, or with value > ub on a non-extensible type, returns an error")
	fn := mustFunc(c, pAper, "perRawBitData.appendInteger")
	if fn == nil {
		return
	}
	c.Analysed(core.FuncName(fn))
	p := core.NewPather(fn)
	canon := map[string]string{
		"(p1<p3)": "low=T", "(p3>p1)": "low=T", "(p1>=p3)": "low=F", "(p3<=p1)": "low=F",
		"(p1<=p4)": "in=T", "(p4>=p1)": "in=T", "(p1>p4)": "in=F", "(p4<p1)": "in=F",
		"p2": "ext=T", "(p3!=nil)": "lb=T", "(p3==nil)": "lb=F", "(p4!=nil)": "ub=T", "(p4==nil)": "ub=F",
	}
	br := func(v ssa.Value) string {
		if l, ok := canon[p.Path(v)]; ok {
			return l
		}
		return ""
	}
	ev := func(in ssa.Instruction) string {
		r, ok := in.(*ssa.Return)
		if !ok || len(r.Results) != 1 {
			return ""
		}
		if k, ok := r.Results[0].(*ssa.Const); ok && k.IsNil() {
			return "ret:nil"
		}
		if call, ok := r.Results[0].(*ssa.Call); ok {
			n := core.CalleeName(call.Common())
			if n == "fmt.Errorf" || n == "errors.New" {
				return "ret:err"
			}
		}
		return "ret:other"
	}
	// the INTEGER field reaches appendInteger with the bounds of its tag and the error is returned
	if mf := mustFunc(c, pAper, "perRawBitData.makeField"); mf != nil {
		mp := core.NewPather(mf)
		want := "call:" + pAper + ".perRawBitData.appendInteger(p0,call:reflect.Value.Int(p1),p2.valueExtensible,p2.valueLowerBound,p2.valueUpperBound)"
		okCall := false
		for _, ci := range core.CallsTo(mf, pAper+".perRawBitData.appendInteger") {
			call, isCall := ci.(*ssa.Call)
			if !isCall || mp.Path(call) != want {
				continue
			}
			for _, r := range core.Referrers(call) {
				if ret, isRet := r.(*ssa.Return); isRet && len(ret.Results) == 1 && ret.Results[0] == ssa.Value(call) {
					okCall = true
				}
			}
			if lost, _ := errorLost(call, call, false); !lost {
				okCall = true
			}
		}
		c.Check(okCall, R, "aper.makeField:integer-bounds-from-tag", mf.Pos(), "appendInteger(v.Int(), ext, lb, ub) with the error propagated", "makeField must hand an INTEGER to appendInteger with the extensibility and bounds of its tag and propagate the error")
	}
	paths, ok := core.EventPathsB(fn, ev, br, 1, 200000)
	if !ok {
		c.SoftUndecided("appendInteger has too many paths to enumerate")
		return
	}
	c.Sites(len(paths))
	// EventPathsB writes "<label>=T/F" after the branch name: our names already carry a
	// polarity, so "low=T=F" means the condition named low=T was false.
	norm := func(e string) string {
		for _, n := range []string{"low", "in", "ext", "lb", "ub"} {
			for _, pol := range []string{"T", "F"} {
				if e == n+"="+pol+"=T" {
					return n + "=" + pol
				}
				if e == n+"="+pol+"=F" {
					if pol == "T" {
						return n + "=F"
					}
					return n + "=T"
				}
			}
		}
		return e
	}
	nLow, nUp := 0, 0
	var bad []string
	for _, path := range paths {
		set := map[string]bool{}
		for _, e := range path {
			set[norm(e)] = true
		}
		last := ""
		if len(path) > 0 {
			last = path[len(path)-1]
		}
		// the conditions are over parameters that are never reassigned: a path taking one
		// of them both ways is infeasible
		infeasible := false
		for _, n := range []string{"low", "in", "ext", "lb", "ub"} {
			if set[n+"=T"] && set[n+"=F"] {
				infeasible = true
			}
		}
		if infeasible {
			continue
		}
		if set["lb=T"] && !set["low=T"] && !set["low=F"] {
			bad = append(bad, "a path with a lower bound never compares the value with it")
		}
		if set["lb=T"] && set["ub=T"] && !set["in=T"] && !set["in=F"] && !set["low=T"] {
			bad = append(bad, "a path with an upper bound never compares the value with it")
		}
		if set["low=T"] {
			nLow++
			if last != "ret:err" {
				bad = append(bad, "a path with value < lowerBound does not return an error")
			}
		}
		if set["in=F"] && set["ext=F"] {
			nUp++
			if last != "ret:err" {
				bad = append(bad, "a path with value > upperBound on a non-extensible type does not return an error")
			}
		}
	}
	if nLow == 0 {
		bad = append(bad, "no path tests value < lowerBound")
	}
	if nUp == 0 {
		bad = append(bad, "no path tests value > upperBound for a non-extensible type")
	}
	sort.Strings(bad)
	if len(bad) > 0 {
		c.Fail(R, "aper.appendInteger:out-of-range-refused", fn.Pos(), "an out-of-range identifier would be encoded truncated instead of refused: %s", bad[0])
	} else {
		c.Ok(R, "aper.appendInteger:out-of-range-refused", fn.Pos(), fmt.Sprintf("%d paths below the lower bound and %d above a non-extensible upper bound, all return an error", nLow, nUp))
	}
}

// r13pure: message construction is history-free apart from the announced PLMN.
func r13pure(c *core.Ctx) {
	if !c.Once("r13pure") {
		return
	}
	// the build-and-encode wrappers: the functions of tglib that call ngap.Encoder
	var entries []*ssa.Function
	for _, f := range exportedFuncs(c, pTglib, func(n string) bool { return true }) {
		if len(core.CallsTo(f, pNgap+".Encoder")) > 0 {
			entries = append(entries, f)
		}
	}
	entries = append(entries, exportedFuncs(c, pBuild, func(n string) bool { return strings.HasPrefix(n, "Build") || strings.HasPrefix(n, "Get") })...)
	if len(entries) < 40 {
		c.Undecided("R13.pure: only %d builder/wrapper entry points found", len(entries))
	}
	pureState(c, "R13.pure", "NGAP message construction (tglib wrappers and ngapTestpacket builders)", entries,
		map[string]string{"ngapTestpacket.TestPlmn": "ngapTestpacket.BuildNGSetupRequest"})
}
