package rules

import (
	"fmt"
	"os"
	"go/types"
	"sort"
	"strings"

	"golang.org/x/tools/go/ssa"

	"stgverif/internal/core"
)

// Procedure-driver model on the abstract evaluator (DESIGN.md §11.12). The drivers of package
// stgutg are straight-line scripts; a refactor that moves part of one into a helper (the
// receive-and-decode step, the 5G-AKA answer, the extraction of the setup item) leaves every
// value where it was but breaks the def-use chains the SSA model of drivers.go follows inside
// one function. This model interprets the driver with the helpers of its package entered and
// every library boundary replaced by a summary whose result is a fresh named object:
//
//	conn.Write(b)                      event write   (b must be the object a wrapper returned)
//	conn.Read(b)                       event recv
//	ngap.Decoder(b)                    event decode  → *NGAPPDU named rx#k, err = nil
//	tglib.Get<Message>(…)              event wrap    → []byte named w#k, err = nil
//	tglib.EncodeNasPduWithSecurity(…)  event enc     → []byte named enc#k, err = nil
//	nasTestpacket.Get…(…)              event ctor    → []byte named nas#k
//	tglib.GetNasPdu(ue, dl)            event naspdu  → *nas.Message named naspdu#k
//	ue.DeriveRESstarAndSetKey(…)       event derive  → []byte named res#k
//	os.Exit, log.Fatal*                the path ends (ManageError is entered: it returns only for a nil error)
//
// k is the position of the call in the path's trace, so two calls never share a name. Every
// other callee outside package stgutg is an uninterpreted function of its arguments; when it can
// reach a store to RanUeContext.AmfUeNgapId / RanUeNgapId the cell is forgotten instead.
// The rules then read, per path, the order of the events and compare abstract argument values
// with abstract memory (ue.AmfUeNgapId at the call) instead of comparing SSA operands.

type xEvent struct {
	kind string // write recv decode wrap enc ctor naspdu derive
	ev   *core.AEvent
}

type xNAS struct {
	prot            bool
	enc, ctor       *core.AEvent
	sht             int64
	shtConst        bool
	avail, newCtx   int
	ctorName        string
}

type xSend struct {
	write   *core.AEvent
	wrap    *core.AEvent
	wrapper string
	roles   []string
	nas     *xNAS
	problem string
}

type xPath struct {
	out    *core.AOutcome
	events []xEvent
	sends  []*xSend
	byName map[string]*core.AEvent
}

type xModel struct {
	fn    *ssa.Function
	ue    string
	paths []*xPath
	err   string // non-empty: the evaluation did not finish or was not exact
}

var xLeaf = map[string]bool{"EncodeSuci": true, "DecodePDUSessionNASPDU": true, "DecodePDUSessionResourceSetupRequestTransfer": true, "Min": true}

var xModelCache = map[*ssa.Function]*xModel{}
var xModelErrCache = map[*ssa.Function]*xModel{}

func xKind(name string) (kind, prefix string) {
	switch {
	case name == fnSctpWrite:
		return "write", ""
	case name == fnSctpRead:
		return "recv", ""
	case name == pNgap+".Decoder":
		return "decode", "rx"
	case name == pTglib+".EncodeNasPduWithSecurity":
		return "enc", "enc"
	case name == pTglib+".GetNasPdu":
		return "naspdu", "naspdu"
	case name == pTglib+".RanUeContext.DeriveRESstarAndSetKey":
		return "derive", "res"
	case strings.HasPrefix(name, pNasTP+"."):
		return "ctor", "nas"
	case strings.HasPrefix(name, pTglib+".Get"):
		if _, ok := wrapperRoles(strings.TrimPrefix(name, pTglib+".")); ok {
			return "wrap", "w"
		}
	}
	return "", ""
}

// writesUEIds: fn can reach (through static calls) a store to the NGAP id fields of a UE context.
func writesUEIds(fn *ssa.Function, memo map[*ssa.Function]int, depth int) bool {
	if fn == nil || len(fn.Blocks) == 0 {
		return false
	}
	switch memo[fn] {
	case 1:
		return true
	case 2, 3:
		return false
	}
	memo[fn] = 3 // in progress
	res := false
	for _, b := range fn.Blocks {
		for _, in := range b.Instrs {
			switch x := in.(type) {
			case *ssa.Store:
				if isFieldOfUE(x.Addr, "AmfUeNgapId") || isFieldOfUE(x.Addr, "RanUeNgapId") {
					res = true
				}
			case ssa.CallInstruction:
				if cal := x.Common().StaticCallee(); cal != nil && depth < 12 && core.RepoFunc(cal) && writesUEIds(cal, memo, depth+1) {
					res = true
				}
			}
		}
	}
	if res {
		memo[fn] = 1
	} else {
		memo[fn] = 2
	}
	return res
}

// reachesWrapper: f (a function of tglib that is not itself a boundary) calls, directly or through
// other such functions, one of the build-and-encode wrappers or the NAS protection entry.
func reachesWrapper(f *ssa.Function, memo map[*ssa.Function]int, depth int) bool {
	if f == nil || len(f.Blocks) == 0 || depth > 4 {
		return false
	}
	switch memo[f] {
	case 1:
		return true
	case 2:
		return false
	}
	memo[f] = 2
	for _, ci := range core.Calls(f) {
		name := core.CalleeName(ci.Common())
		if k, _ := xKind(name); k == "wrap" || k == "enc" {
			memo[f] = 1
			return true
		}
		if g := ci.Common().StaticCallee(); g != nil && fnPkgPath(g) == pTglib && reachesWrapper(g, memo, depth+1) {
			memo[f] = 1
			return true
		}
	}
	return false
}

func namedRet(name string, t types.Type, errs bool) core.AVal {
	mk := func(t types.Type) core.AVal {
		switch t.Underlying().(type) {
		case *types.Slice:
			return core.AVal{K: core.ASlice, Path: name, Lo: 0, Len: -1, NonNil: true}
		case *types.Pointer:
			return core.AVal{K: core.APtr, Path: name, NonNil: true}
		case *types.Interface:
			if errs {
				// fail-stop model: the error is a value of its own, nil or not as the path finds out
				return core.AVal{K: core.AUnknown, Path: "err:" + name}
			}
			return core.NilArg() // error results: the success path (ManageError ends the other one)
		}
		return core.ArgNamed(name, t)
	}
	if tup, ok := t.(*types.Tuple); ok {
		out := core.AVal{K: core.ATuple}
		for i := 0; i < tup.Len(); i++ {
			n := name
			if i > 0 {
				n = fmt.Sprintf("%s.%d", name, i)
			}
			out.Elems = append(out.Elems, mk(tup.At(i).Type()))
			_ = n
		}
		return out
	}
	return mk(t)
}

func driverModelX(c *core.Ctx, fn *ssa.Function) *xModel { return driverModelXE(c, fn, false) }

// driverModelXE with errs set is the fail-stop variant: the error results of the library
// boundaries (and of Read/Write/ConnectToAmf) are unknown values, so every test of one forks
// the path, and a path ends where the process does.
func driverModelXE(c *core.Ctx, fn *ssa.Function, errs bool) *xModel {
	cache := xModelCache
	if errs {
		cache = xModelErrCache
	}
	if m, ok := cache[fn]; ok {
		return m
	}
	m := &xModel{fn: fn}
	cache[fn] = m
	if i := ueParamIndex(fn); i >= 0 {
		m.ue = fmt.Sprintf("p%d", i)
	}
	wmemo := map[*ssa.Function]int{}
	ex := core.NewExec()
	ex.MaxStates = 512
	ex.LoopBound = 2
	ex.Enter = func(f *ssa.Function) bool {
		if f.Pkg == nil {
			return core.RepoFunc(f)
		}
		if f.Pkg.Pkg.Path() == pTglib {
			// a convenience layer of tglib over the build-and-encode wrappers (ue.UplinkNASTransport(nas)
			// = GetUplinkNASTransport(ue.AmfUeNgapId, ue.RanUeNgapId, nas)) is seen through
			if k, _ := xKind(core.FuncName(f)); k != "" {
				return false
			}
			return reachesWrapper(f, map[*ssa.Function]int{}, 0)
		}
		return f.Pkg.Pkg.Path() == pStg && !xLeaf[f.Name()]
	}
	ex.OnCall = func(ev *core.AEvent, mem *core.AMem) (core.AVal, bool) {
		if ev.Callee == "os.Exit" || strings.HasPrefix(ev.Callee, "log.Fatal") || strings.HasPrefix(ev.Callee, "log.Panic") {
			ev.Stop = true // the process ends here: ManageError on an error the path found non-nil
			return core.AVal{}, true
		}
		if _, pre := xKind(ev.Callee); pre != "" {
			return namedRet(fmt.Sprintf("%s#%d", pre, ev.Index), ev.Site.Type(), errs && pre == "rx"), true
		}
		switch ev.Callee {
		case fnSctpWrite, fnSctpRead:
			e := core.NilArg()
			if errs {
				e = core.AVal{K: core.AUnknown, Path: fmt.Sprintf("err:io#%d", ev.Index)}
			}
			return core.AVal{K: core.ATuple, Elems: []core.AVal{core.ArgNamed(fmt.Sprintf("n#%d", ev.Index), types.Typ[types.Int]), e}}, true
		case pTglib + ".ConnectToAmf":
			if errs {
				return core.AVal{K: core.ATuple, Elems: []core.AVal{{K: core.APtr, Path: fmt.Sprintf("conn#%d", ev.Index), NonNil: true}, {K: core.AUnknown, Path: fmt.Sprintf("err:conn#%d", ev.Index)}}}, true
			}
		}
		if ev.Fn != nil && ex.Enter(ev.Fn) && len(ev.Fn.Blocks) > 0 {
			return core.AVal{}, false
		}
		if ev.Fn == nil && ev.Site.Call.IsInvoke() == false && ev.Site.Call.StaticCallee() == nil {
			return core.AVal{}, false // closures and function values: the evaluator's own treatment
		}
		if writesUEIds(ev.Fn, wmemo, 0) && m.ue != "" {
			mem.Havoc(m.ue + ".AmfUeNgapId")
			mem.Havoc(m.ue + ".RanUeNgapId")
		}
		return core.OpaqueRet(ev), true
	}
	outs, err := ex.Run(fn, core.DefaultArgs(fn), nil)
	if err != nil {
		m.err = err.Error()
		return m
	}
	for i := range outs {
		o := &outs[i]
		if o.Panicked || (o.Stopped && !errs) {
			continue
		}
		p := &xPath{out: o, byName: map[string]*core.AEvent{}}
		for j := range o.Trace {
			ev := &o.Trace[j]
			kind, pre := xKind(ev.Callee)
			if kind == "" {
				continue
			}
			if pre != "" {
				p.byName[fmt.Sprintf("%s#%d", pre, ev.Index)] = ev
			}
			p.events = append(p.events, xEvent{kind, ev})
			if kind == "write" {
				p.sends = append(p.sends, p.resolveSend(ev))
			}
		}
		m.paths = append(m.paths, p)
	}
	if len(ex.Unsound) > 0 {
		m.err = "effects the evaluation could not follow: " + strings.Join(ex.Unsound, "; ")
	}
	return m
}

// whole reports the object an abstract slice is, when it is all of it.
func whole(v core.AVal) (string, bool) {
	if v.K == core.ASlice && v.Lo == 0 {
		return v.Path, true
	}
	return "", false
}

func (p *xPath) producer(v core.AVal, kinds ...string) *core.AEvent {
	name, ok := whole(v)
	if !ok {
		return nil
	}
	ev := p.byName[name]
	if ev == nil {
		return nil
	}
	k, _ := xKind(ev.Callee)
	for _, want := range kinds {
		if k == want {
			return ev
		}
	}
	return nil
}

func boolOf(v core.AVal) int {
	if u, ok := v.ConstVal(); ok {
		return int(u & 1)
	}
	return -1
}

func (p *xPath) resolveNAS(v core.AVal) (*xNAS, string) {
	n := &xNAS{avail: -1, newCtx: -1}
	ev := p.producer(v, "enc", "ctor")
	if ev == nil {
		return nil, "the NAS payload is " + clip(core.ArgName(v)) + ", not the result of a NAS constructor or of EncodeNasPduWithSecurity"
	}
	if k, _ := xKind(ev.Callee); k == "enc" {
		n.prot, n.enc = true, ev
		if u, ok := ev.Args[2].ConstVal(); ok {
			n.sht, n.shtConst = int64(u), true
		}
		n.avail, n.newCtx = boolOf(ev.Args[3]), boolOf(ev.Args[4])
		ev = p.producer(ev.Args[1], "ctor")
		if ev == nil {
			return n, "the message handed to EncodeNasPduWithSecurity is not the result of a NAS constructor"
		}
	}
	n.ctor = ev
	n.ctorName = strings.TrimPrefix(ev.Callee, pNasTP+".")
	return n, ""
}

func (p *xPath) resolveSend(w *core.AEvent) *xSend {
	s := &xSend{write: w}
	ev := p.producer(w.Args[len(w.Args)-1], "wrap")
	if ev == nil {
		s.problem = "the written buffer is " + clip(core.ArgName(w.Args[len(w.Args)-1])) + ", not the result of a build-and-encode wrapper"
		return s
	}
	s.wrap = ev
	s.wrapper = strings.TrimPrefix(ev.Callee, pTglib+".")
	s.roles, _ = wrapperRoles(s.wrapper)
	for i, r := range s.roles {
		if r == "nas" && i < len(ev.Args) {
			s.nas, s.problem = p.resolveNAS(ev.Args[i])
		}
	}
	return s
}

func (s *xSend) Label() string {
	if s.wrapper == "" {
		return "send:?"
	}
	l := "send:" + strings.TrimPrefix(s.wrapper, "Get")
	if s.nas != nil {
		ctor := s.nas.ctorName
		if ctor == "" {
			ctor = "?"
		}
		if s.nas.prot {
			sht := "?"
			if s.nas.shtConst {
				sht = fmt.Sprint(s.nas.sht)
			}
			l += fmt.Sprintf("[prot(%s,%s,%s):%s]", sht, tf(s.nas.avail), tf(s.nas.newCtx), ctor)
		} else {
			l += "[plain:" + ctor + "]"
		}
	}
	return l
}

// labels renders one path as the event list the script rules read.
func (p *xPath) labels(ue string) []string {
	var out []string
	si := 0
	for _, e := range p.events {
		switch e.kind {
		case "write":
			out = append(out, p.sends[si].Label())
			si++
		case "recv":
			out = append(out, "recv")
		case "derive":
			out = append(out, "derive")
		}
	}
	return out
}

// DumpDriver prints the evaluator's model of one driver (developer aid: stgverif drvdump <func>).
func DumpDriver(c *core.Ctx, name string) {
	fn := c.P.Func(pStg, name)
	if fn == nil {
		fmt.Println("no such driver")
		return
	}
	m := driverModelX(c, fn)
	fmt.Printf("%s: ue=%s err=%q paths=%d\n", name, m.ue, m.err, len(m.paths))
	for i, p := range m.paths {
		fmt.Printf("--- path %d conds=%v\n", i, p.out.Conds)
		for _, e := range p.events {
			var as []string
			for _, a := range e.ev.Args {
				as = append(as, clip(core.ArgName(a)))
			}
			fmt.Printf("  %-7s #%d %s(%s)\n", e.kind, e.ev.Index, shortName(e.ev.Callee), strings.Join(as, ", "))
		}
		if os.Getenv("VERIF_DEBUG") != "" {
			for i := range p.out.Trace {
				ev := &p.out.Trace[i]
				var as []string
				for _, a := range ev.Args {
					as = append(as, clip(core.ArgName(a)))
				}
				fmt.Printf("  trace #%d %s(%s) -> %s\n", ev.Index, ev.Callee, strings.Join(as, ", "), clip(core.ArgName(ev.Ret)))
			}
		}
		fmt.Printf("  labels: %v\n", p.labels(m.ue))
		var rs []string
		for _, r := range p.out.Ret {
			rs = append(rs, core.ArgName(r))
		}
		fmt.Printf("  ret: %v\n", rs)
		fmt.Printf("  nils: %v\n", p.out.Nils)
		cells := p.out.Mem.Cells(m.ue + ".")
		sort.Strings(cells)
		for _, k := range cells {
			fmt.Printf("  %s = %s\n", k, core.ArgName(p.out.Mem.Load(k, nil)))
		}
	}
}
