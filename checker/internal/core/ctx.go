package core

import (
	"encoding/json"
	"fmt"
	"go/token"
	"os"
	"path/filepath"
	"sort"
	"strings"
	"time"
)

// Status of one obligation.
const (
	OK        = "discharged"
	FAIL      = "violated"
	KNOWN     = "known-finding"
	EXCEPTION = "exception"
	NOTE      = "note"
)

// Obligation is one rule instance on one construct. Key carries no line numbers.
type Obligation struct {
	Rule   string `json:"rule"`
	Key    string `json:"key"`
	Pos    string `json:"pos"`
	Status string `json:"status"`
	Detail string `json:"detail,omitempty"`
}

// Undecided aborts a run: the machinery cannot decide (exit 2, never a verdict).
type Undecided struct{ Msg string }

// Ctx is handed to every rule.
type Ctx struct {
	Prop        string
	Tier        string
	P           *Program
	Only        string
	Obls        []Obligation
	Notes       []string
	funcs       map[string]bool // functions analysed
	sites       int
	pkgs        map[string]bool
	rules       map[string]string // rule id -> one-line description
	ruleOrder   []string
	start       time.Time
	Assumptions []string
	Explanation string
	seen        map[string]bool
	Soft        []string // undecided sub-questions: reported (exit 2) only when no violation is found
}

// SoftUndecided records that one sub-rule could not be decided (unrecognised
// shape) without abandoning the other rules. If the run ends with no violation,
// the verdict is UNDECIDED (exit 2); a violation found elsewhere is still reported.
func (c *Ctx) SoftUndecided(format string, a ...interface{}) {
	c.Soft = append(c.Soft, fmt.Sprintf(format, a...))
}

func NewCtx(prop, tier string, p *Program) *Ctx {
	return &Ctx{Prop: prop, Tier: tier, P: p, funcs: map[string]bool{}, pkgs: map[string]bool{},
		rules: map[string]string{}, start: T0, seen: map[string]bool{}}
}

// Rule registers a rule and its description (shown in the evidence).
func (c *Ctx) Rule(id, desc string) {
	if _, ok := c.rules[id]; !ok {
		c.ruleOrder = append(c.ruleOrder, id)
	}
	c.rules[id] = desc
}

func (c *Ctx) add(rule, key string, pos token.Pos, status, detail string) {
	full := rule + ":" + key
	if c.seen[full] {
		// keys must be unique; disambiguate deterministically
		for i := 2; ; i++ {
			k := fmt.Sprintf("%s#%d", key, i)
			if !c.seen[rule+":"+k] {
				key = k
				full = rule + ":" + k
				break
			}
		}
	}
	c.seen[full] = true
	if _, ok := c.rules[rule]; !ok {
		c.Rule(rule, "")
	}
	c.Obls = append(c.Obls, Obligation{Rule: rule, Key: key, Pos: c.P.Pos(pos), Status: status, Detail: detail})
	if t := os.Getenv("VERIF_TRACE"); t != "" && strings.HasPrefix(rule, t) {
		fmt.Fprintf(os.Stderr, "TRACE %s %s:%s %s\n", status, rule, key, detail)
	}
}

// Ok records a discharged obligation.
func (c *Ctx) Ok(rule, key string, pos token.Pos, detail string) { c.add(rule, key, pos, OK, detail) }

// Fail records a violated obligation.
func (c *Ctx) Fail(rule, key string, pos token.Pos, format string, a ...interface{}) {
	c.add(rule, key, pos, FAIL, fmt.Sprintf(format, a...))
}

// Check records ok or fail depending on cond.
func (c *Ctx) Check(cond bool, rule, key string, pos token.Pos, okDetail, failFormat string, a ...interface{}) bool {
	if cond {
		c.Ok(rule, key, pos, okDetail)
	} else {
		c.Fail(rule, key, pos, failFormat, a...)
	}
	return cond
}

// Except records a reasoned exception (one named construct, one reason).
func (c *Ctx) Except(rule, key string, pos token.Pos, reason string) {
	c.add(rule, key, pos, EXCEPTION, reason)
}

// Note records an informational remark (never affects the verdict).
func (c *Ctx) Note(format string, a ...interface{}) {
	c.Notes = append(c.Notes, fmt.Sprintf(format, a...))
}

// Once reports true the first time it is called with name in this run (shared rules
// included by several property checks run once).
func (c *Ctx) Once(name string) bool {
	k := "\x00once:" + name
	if c.seen[k] {
		return false
	}
	c.seen[k] = true
	return true
}

// Analysed records a function the rule looked at.
func (c *Ctx) Analysed(fn string) { c.funcs[fn] = true }

// Sites adds to the call-site counter.
func (c *Ctx) Sites(n int) { c.sites += n }

// Undecided aborts the run.
func (c *Ctx) Undecided(format string, a ...interface{}) {
	panic(Undecided{fmt.Sprintf(format, a...)})
}

// Floor makes the run undecided when a mass rule matched fewer instances than the confirmed
// count allows (vacuity guard).
func (c *Ctx) Floor(rule string, got, confirmed int) {
	// a tenth of the instances confirmed by hand: consolidating repeated code into helpers legitimately
	// removes most instances of a per-site rule; only a rule that matches (almost) nothing is vacuous
	min := confirmed / 10
	if min < 1 {
		min = 1
	}
	if got < min {
		// soft: a violation found by another rule is still reported; without one the verdict is UNDECIDED
		c.SoftUndecided("rule %s matched %d instances, below the floor %d (confirmed by hand: %d) — vacuity guard", rule, got, min, confirmed)
	}
}

// ---------------------------------------------------------------- findings

type KnownFinding struct {
	Property  string `json:"property"`
	Key       string `json:"key"` // "<rule>:<obligation key>"
	WhatFails string `json:"what_fails"`
	Witness   string `json:"witness"`
}

type FixedRecord struct {
	Property string `json:"property"`
	Commit   string `json:"commit"`
	Key      string `json:"key"`
	What     string `json:"what_failed"`
	Line     string `json:"record"`
}

type KnownFile struct {
	Comment string         `json:"_comment,omitempty"`
	Known   []KnownFinding `json:"known_findings"`
	Fixed   []FixedRecord  `json:"fixed"`
}

func VerifDir() string {
	if d := os.Getenv("VERIF_DIR"); d != "" {
		return d
	}
	return "/verif"
}

func loadKnown() (KnownFile, error) {
	var kf KnownFile
	b, err := os.ReadFile(filepath.Join(VerifDir(), "known_findings.json"))
	if err != nil {
		if os.IsNotExist(err) {
			return kf, nil
		}
		return kf, err
	}
	err = json.Unmarshal(b, &kf)
	return kf, err
}

// ---------------------------------------------------------------- finish

type evidence struct {
	PropertyID  string                 `json:"property_id"`
	Tier        string                 `json:"tier"`
	Seed        int                    `json:"seed"`
	Level       string                 `json:"level"`
	Coverage    map[string]interface{} `json:"coverage"`
	Assumptions []string               `json:"assumptions"`
	WallS       float64                `json:"wall_s"`
	Violations  int                    `json:"violations"`
}

// Finish applies the known-findings file, prints the report, writes the evidence
// and returns the exit code.
func (c *Ctx) Finish(extra map[string]interface{}) int {
	kf, err := loadKnown()
	if err != nil {
		fmt.Printf("UNDECIDED: property=%s known_findings.json unreadable: %v\n", c.Prop, err)
		return 2
	}
	known := map[string]KnownFinding{}
	for _, k := range kf.Known {
		if k.Property == c.Prop {
			known[k.Key] = k
		}
	}
	usedKnown := map[string]bool{}
	var viol, knownHit []Obligation
	counts := map[string]int{}
	constructs := map[string]bool{}
	perRule := map[string][2]int{}
	for i := range c.Obls {
		o := &c.Obls[i]
		full := o.Rule + ":" + o.Key
		if o.Status == FAIL {
			if k, ok := known[full]; ok {
				o.Status = KNOWN
				usedKnown[full] = true
				knownHit = append(knownHit, *o)
				fmt.Printf("KNOWN-FINDING: property=%s %s [%s] %s\n", c.Prop, k.WhatFails, full, o.Pos)
			} else {
				viol = append(viol, *o)
			}
		}
		counts[o.Status]++
		constructs[o.Key] = true
		pr := perRule[o.Rule]
		pr[0]++
		if o.Status == OK || o.Status == EXCEPTION {
			pr[1]++
		}
		perRule[o.Rule] = pr
	}
	// stale known findings: listed but no longer failing
	var stale []string
	for k := range known {
		if !usedKnown[k] {
			stale = append(stale, k)
		}
	}
	sort.Strings(stale)

	nObl := 0
	for _, o := range c.Obls {
		if o.Status != NOTE {
			nObl++
		}
	}
	discharged := counts[OK] + counts[EXCEPTION]

	// samples: every non-ok obligation plus a spread of discharged ones
	var samples []Obligation
	for _, o := range c.Obls {
		if o.Status != OK {
			samples = append(samples, o)
		}
	}
	perRuleShown := map[string]int{}
	for _, o := range c.Obls {
		if o.Status == OK && perRuleShown[o.Rule] < 4 {
			perRuleShown[o.Rule]++
			samples = append(samples, o)
		}
	}
	if len(samples) > 120 {
		samples = samples[:120]
	}
	var ruleList []map[string]interface{}
	for _, id := range c.ruleOrder {
		pr := perRule[id]
		ruleList = append(ruleList, map[string]interface{}{"id": id, "what": c.rules[id], "obligations": pr[0], "discharged_or_excepted": pr[1]})
	}
	var fns []string
	for f := range c.funcs {
		fns = append(fns, f)
	}
	sort.Strings(fns)
	fnsShown := fns
	if len(fnsShown) > 60 {
		fnsShown = fnsShown[:60]
	}

	cov := map[string]interface{}{
		"explanation":          c.Explanation,
		"obligations":          nObl,
		"discharged":           discharged,
		"evaluations":          nObl,
		"distinct_nontrivial":  len(constructs),
		"rule":                 "every obligation is one rule instance on one construct of /repo's current working tree (keyed rule:function:construct, no line numbers); distinct_nontrivial counts distinct constructs that carried at least one obligation",
		"samples":              samples,
		"rules":                ruleList,
		"functions_analysed":   len(fns),
		"functions":            fnsShown,
		"call_sites":           c.sites,
		"packages_loaded":      len(c.P.All),
		"repo_packages":        len(c.P.RepoPackages()),
		"violated":             len(viol),
		"known_findings":       len(knownHit),
		"exceptions":           counts[EXCEPTION],
		"stale_known_findings": stale,
		"notes":                c.Notes,
		"exhaustive":           true,
		"checker_cmd":          fmt.Sprintf("/verif/check %s %s", c.Prop, c.Tier),
		"goarch":               c.P.GOARCH,
	}
	for k, v := range extra {
		cov[k] = v
	}
	ev := evidence{PropertyID: c.Prop, Tier: c.Tier, Seed: 0, Level: "other", Coverage: cov,
		Assumptions: c.Assumptions, WallS: time.Since(c.start).Seconds(), Violations: len(viol)}
	if ev.Assumptions == nil {
		ev.Assumptions = []string{}
	}
	evDir := filepath.Join(VerifDir(), "evidence")
	if d := os.Getenv("VERIF_EVIDENCE_DIR"); d != "" {
		evDir = d
	}
	_ = os.MkdirAll(evDir, 0o755)
	b, _ := json.MarshalIndent(ev, "", " ")
	if err := os.WriteFile(filepath.Join(evDir, c.Prop+".json"), append(b, '\n'), 0o644); err != nil {
		fmt.Printf("UNDECIDED: property=%s cannot write evidence: %v\n", c.Prop, err)
		return 2
	}
	vpath := filepath.Join(evDir, c.Prop+".violations.json")
	if len(viol) > 0 {
		vb, _ := json.MarshalIndent(viol, "", " ")
		_ = os.WriteFile(vpath, append(vb, '\n'), 0o644)
	} else {
		_ = os.Remove(vpath)
	}

	fmt.Printf("property=%s tier=%s obligations=%d discharged=%d exceptions=%d known=%d violated=%d functions=%d call_sites=%d wall=%.1fs\n",
		c.Prop, c.Tier, nObl, counts[OK], counts[EXCEPTION], len(knownHit), len(viol), len(fns), c.sites, time.Since(c.start).Seconds())
	for _, id := range c.ruleOrder {
		pr := perRule[id]
		fmt.Printf("  rule %-14s %4d obligations, %4d discharged/excepted  %s\n", id, pr[0], pr[1], firstLine(c.rules[id]))
	}
	for _, n := range c.Notes {
		fmt.Printf("  note: %s\n", n)
	}
	for _, s := range stale {
		fmt.Printf("  note: known finding %s no longer fails on this tree\n", s)
	}
	if len(viol) > 0 {
		sort.SliceStable(viol, func(i, j int) bool { return posLess(viol[i].Pos, viol[j].Pos) })
		for _, o := range viol {
			fmt.Printf("%s: %s: %s: %s\n", o.Pos, o.Rule, o.Key, o.Detail)
		}
		for _, u := range c.Soft {
			fmt.Printf("  undecided: %s\n", u)
		}
		fmt.Printf("VIOLATION property=%s replay=%s\n", c.Prop, vpath)
		return 1
	}
	if len(c.Soft) > 0 {
		for _, u := range c.Soft {
			fmt.Printf("UNDECIDED: property=%s %s\n", c.Prop, u)
		}
		return 2
	}
	return 0
}

func firstLine(s string) string {
	if i := strings.IndexByte(s, '\n'); i >= 0 {
		s = s[:i]
	}
	if len(s) > 110 {
		s = s[:107] + "..."
	}
	return s
}

func posLess(a, b string) bool {
	af, al := splitPos(a)
	bf, bl := splitPos(b)
	if af != bf {
		return af < bf
	}
	return al < bl
}

func splitPos(s string) (string, int) {
	i := strings.LastIndexByte(s, ':')
	if i < 0 {
		return s, 0
	}
	n := 0
	fmt.Sscanf(s[i+1:], "%d", &n)
	return s[:i], n
}

// T0 is the process start: wall time in the evidence includes loading /repo.
var T0 = time.Now()
