package rules

import (
	"fmt"
	"go/token"
	"go/types"
	"strings"

	"golang.org/x/tools/go/ssa"

	"stgverif/internal/core"
)

// R14.nilptr: the constraint tags of a field arrive as optional values - the pointer fields of
// aper's fieldParameters (valueLowerBound, valueUpperBound, sizeLowerBound, sizeUpperBound,
// referenceFieldValue, …) are nil when the tag does not give them (PrivateIEID has no valueUB). A
// decoder function that dereferences such a field has to have tested that very field against nil on
// every way to the dereference; otherwise a PDU of the type with the missing tag makes the decoder
// panic. (Handing the pointer on is fine: the callee is judged for its own parameter dereferences by
// the guard rules.)
func r14nilptr(c *core.Ctx) {
	if !c.Once("r14nilptr") {
		return
	}
	const R = "R14.nilptr"
	c.Rule(R, "decoder: an optional constraint (pointer field of fieldParameters) is dereferenced only after it was tested against nil on every path")
	sp := c.P.SSAPkg(pAper)
	if sp == nil {
		return
	}
	entry := c.P.Func(pAper, "UnmarshalWithParams")
	if entry == nil {
		c.SoftUndecided("%s: aper.UnmarshalWithParams not found", R)
		return
	}
	reach := staticReach(entry)
	n, bad := 0, 0
	for _, f := range sortedFuncs(reach) {
		if fnPkgPath(f) != pAper || len(f.Blocks) == 0 {
			continue
		}
		p := core.NewPather(f)
		for _, b := range f.Blocks {
			for _, in := range b.Instrs {
				ld, ok := in.(*ssa.UnOp)
				if !ok || ld.Op != token.MUL {
					continue
				}
				// *(x.field) where x.field is a pointer field of fieldParameters
				inner, ok := ld.X.(*ssa.UnOp)
				if !ok || inner.Op != token.MUL {
					continue
				}
				fa, ok := inner.X.(*ssa.FieldAddr)
				if !ok {
					continue
				}
				st, ok := derefStruct(fa.X.Type())
				if !ok || !strings.HasSuffix(st.String(), "aper.fieldParameters") {
					continue
				}
				if _, isPtr := inner.Type().Underlying().(*types.Pointer); !isPtr {
					continue
				}
				n++
				field := p.Path(fa)
				if nilTestedOnAllPaths(p, ld.Block(), field) {
					continue
				}
				bad++
				c.Fail(R, shortFn(f)+":"+field, ld.Pos(), "%s dereferences %s without having tested it against nil: a type whose tag does not give this constraint makes the decoder panic", shortFn(f), field)
			}
		}
	}
	c.Sites(n)
	if bad == 0 {
		c.Ok(R, "aper:optional-constraints", token.NoPos, fmt.Sprintf("%d dereferences of optional constraints, each behind a nil test of the same field", n))
	}
}

func derefStruct(t types.Type) (types.Type, bool) {
	if pt, ok := t.Underlying().(*types.Pointer); ok {
		t = pt.Elem()
	}
	if _, ok := t.Underlying().(*types.Struct); ok {
		return t, true
	}
	return nil, false
}

// nilTestedOnAllPaths: block b is dominated by the non-nil side of a test of the value rendered as field.
func nilTestedOnAllPaths(p *core.Pather, b *ssa.BasicBlock, field string) bool {
	for x := b; x != nil; x = x.Idom() {
		id := x.Idom()
		if id == nil {
			break
		}
		iff, ok := id.Instrs[len(id.Instrs)-1].(*ssa.If)
		if !ok {
			continue
		}
		bo, ok := iff.Cond.(*ssa.BinOp)
		if !ok || (bo.Op != token.NEQ && bo.Op != token.EQL) {
			continue
		}
		var other ssa.Value
		if k, isK := bo.Y.(*ssa.Const); isK && k.IsNil() {
			other = bo.X
		} else if k, isK := bo.X.(*ssa.Const); isK && k.IsNil() {
			other = bo.Y
		}
		if other == nil || p.Path(other) != field {
			continue
		}
		// which successor is the non-nil side, and does it dominate x (x is only reachable through it)?
		nonNil := id.Succs[0]
		if bo.Op == token.EQL {
			nonNil = id.Succs[1]
		}
		if nonNil == x && len(x.Preds) == 1 {
			return true
		}
		if nonNil.Dominates(b) && len(nonNil.Preds) == 1 {
			return true
		}
	}
	return false
}
