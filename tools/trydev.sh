#!/bin/bash
# trydev.sh <patchfile> <prop>... : like tryseed.sh but with a development binary ($SV, default /tmp/svdev) and no rebuild
SV=${SV:-/tmp/svdev}
PATCH=$(readlink -f "$1"); shift
T=$(mktemp -d /tmp/stgdev.XXXX)
rsync -a --exclude .git --exclude SEED /repo/ $T/repo/
( cd $T/repo && patch -p1 --batch -s < $PATCH ) || { echo "PATCH FAILED"; rm -rf $T; exit 3; }
for prop in "$@"; do
  VERIF_DIR=/verif VERIF_REPO=$T/repo VERIF_EVIDENCE_DIR=$T/ev $SV $prop quick | grep -v "^  rule\|^property=\|^  note\|^KNOWN-FINDING" | cut -c1-400
  echo "[$prop exit=${PIPESTATUS[0]}]"
done
rm -rf $T
