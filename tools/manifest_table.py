# Table read by genmanifest.py. claim(pid, technique, level text, level note, design ref)

claim("C19",
  "error-discipline dataflow on SSA: must-pass-through ManageError(own err) after every I/O/decode call; exit-status path check of ManageError",
  "Decides for every path of every driver function (main + stgutg, all reachable from main) that each SCTP read/write, NGAP decode and connect result is handed to ManageError before the next I/O, use of the co-result or return; that ManageError reaches os.Exit(non-zero constant) on every path of its err!=nil side; that nothing recovers a fault; and that no I/O procedure can follow the completion banner. That is the fail-stop argument for every fault index k at once, which a fault-injection run can only sample.",
  "Trusted: os.Exit/panic terminate the process with the given/non-zero status; the SCTP library reports a closed association as an error. Not decided: the wall-clock bound of a blocked Read, and that ngap.Decoder turns every undecodable input into an error (C14/C03).",
  "DESIGN.md §5 C19")

claim("C06",
  "all-paths enumeration of NASEncode on SSA with path-sensitive store forwarding (counter events, branch facts on the header type), access-path argument-role tables for the crypto calls, bit-provenance abstract interpretation of security.Count, who-may-write scan for counters/keys; plus the complete rule set of C07 (NEA/NIA) as a component",
  "Decides for every entry→return path of tglib.NASEncode at once (not for sampled histories): COUNT is read unchanged for SQN octet, cipher and MAC and advanced exactly once afterwards, never on an error path; reset iff a new context is taken into use; cipher iff header type 2/4; algorithm/key/COUNT/BEARER=1/DIRECTION=0 wiring and the EPD||SHT||MAC||SQN||payload layout; and that the counter type keeps SQN in bits 7..0, overflow in bits 23..8 and wraps at 2^24. Since one NASEncode call is one step of any history, the per-call invariant is what makes message n carry COUNT n-1 for every history, including those past 256 and 2^24 messages.",
  "Level 'other': structural necessary conditions. Not decided: the MAC/keystream values (C07), that a receiver verifies them. Trusted: NASEncrypt ciphers in place; single-goroutine use of one UE context.",
  "DESIGN.md §5 C06")

claim("C10",
  "all-paths enumeration of NASDecode on SSA with path-sensitive store forwarding, feasibility of each path over header types 0..4, access-path argument-role tables, bit-provenance of the counter type, control-dependence check of GetNasPdu's IE selection; plus the complete rule set of C07 (NEA/NIA) as a component",
  "Decides for every path of tglib.NASDecode (NIA1/NIA2) which header types can take it and checks on each: DL COUNT reset exactly for types 3/4 before the estimate; overflow+1 exactly when stored SQN > received SQN, then SQN := payload[6]; MAC over payload[6:] and cipher over payload[7:] with the UE's algorithm/key, DLCount.Get(), BEARER 1, DIRECTION 1; cipher exactly for types 2/4; plain messages untouched; NAS-PDU IE chosen by id. This is the per-message step of every downlink history.",
  "Level 'other'. Not decided: cipher/MAC arithmetic (C07), behaviour on MAC mismatch (the code only prints), NIA0 branch (outside the quantifier).",
  "DESIGN.md §5 C10")

claim("C07",
  "constant-table regeneration (S-boxes from their algebraic definitions), GF(2)-linear bit-provenance abstract interpretation of IV/counter-block/LFSR/S-box-recombination code, canonical access-path matching of the cipher structure, interval analysis of variable shift counts with dominating-guard refinement, residue-class abstract evaluation of the EIA1 block arithmetic, dominance checks for re-initialisation",
  "Decides, for all keys/COUNT/BEARER/DIRECTION/lengths at once, the table and layout facts on which conformance of NEA1/NIA1/NEA2/NIA2 rests: 512 S-box entries, MULalpha/DIValpha exponents, S1/S2 recombination, LFSR taps, FSM update, key/IV loading, 32+1 clocks, IV and counter-block bit layouts, key word order, algorithm dispatch, NEA0 identity, whole-message coverage of the keystream (shift-count ranges, tail octets, block counts for every LENGTH mod 64), and re-initialisation of the generator on every call.",
  "Level 'other': necessary structural conditions. Not decided: bit-exact equality with the 3GPP algorithms as a whole (no independent implementation is executed); AES/CTR/CMAC are trusted (crypto/aes, crypto/cipher, aead/cmac). A rewrite of the SNOW 3G core into another shape (e.g. table-driven MULalpha) is reported as not matching the recognised structure.",
  "DESIGN.md §5 C07")

claim("C05",
  "argument-role tables over canonical SSA access paths (with same-package helper inlining to depth 3): FC constants, (P, KDFLen(P)) pairing, key-chaining by value identity, output slices, OP/OPc branch control dependence; plus the complete rule set of C15 (Milenage library) as a component",
  "Decides the wiring of the whole key hierarchy for all inputs at once: which FC, which parameters in which order with the length of the same value, which key feeds which derivation (value identity in SSA, not names), which 16 octets become K_NASenc/K_NASint and in which field they land, that OP is used exactly when OPc is absent and RES* is computed by the same Milenage instance with (mcc, mnc). A wrong constant, length suffix, slice or swapped argument - the failures the property names - is a violated obligation naming the call.",
  "Level 'other'. Trusted: HMAC-SHA-256, hex decoding and github.com/wmnsk/milenage (f2345, OPc computation, RES* incl. FC 6B). Not decided: numerical equality with a network-side derivation.",
  "DESIGN.md §5 C05")

claim("C18",
  "struct-tag / YAML-key table comparison (go/types + parsed config.yaml), argument-role table over canonical SSA access paths in main, who-may-write check on the configuration, all-paths enumeration of GetMode with feasibility over argv lengths 0..4, control-dependence (dominator) check of the procedure calls on the mode branches",
  "Decides key by key, for all 24 documented keys, that the tag exists, is unique and sits on a settable field of the right kind, that nothing rewrites the parsed values, and that each procedure parameter and loop bound in both modes is the unconverted field of its documented key; decides GetMode for every argument-vector length 0..4 and both outcomes of the -t comparison, and that main starts procedures only under mode 1 or 2.",
  "Level 'other'. Trusted: gopkg.in/yaml.v2 scalar decoding. Not decided: README prose; values written by yaml for malformed files.",
  "DESIGN.md §5 C18")

claim("C16",
  "dependence and argument-role analysis on canonical SSA access paths (SUPI / RAN-UE-NGAP-ID formulas, credential flow), who-may-write scan for identity fields, switch-case control dependence of capability setters, bit-provenance of the setter stores",
  "Decides for every IMSI/index at once that the SUPI is imsi-<IMSI+index zero-padded to the IMSI's own width> and the RAN-UE-NGAP-ID (f(IMSI)+index) mod M, M >= 10000, with main passing the loop index - the structural reason identities are pairwise distinct and stay in the PLMN; that the context constructor stores its arguments unmodified and nobody else writes them; that K/OPc/OP land in their fields; and that the advertised capability bits are exactly those of the algorithms the context holds.",
  "Level 'other'. Not decided: MSIN overflow (outside the quantifier), Sprintf/Atoi semantics (trusted).",
  "DESIGN.md §5 C16")

claim("C11",
  "bit-provenance abstract interpretation of the nibble packing (per MNC-length branch and per MSIN-loop arm), interval analysis of the digit conversion, structural sibling comparison with the library's PlmnIDToNas, argument-role checks for the PLMN flow into NG Setup / TestPlmn",
  "Decides for all IMSIs at once which input digit lands in which nibble of PLMN octets 1..3 for both MNC lengths, where the MSIN starts, how MSIN digit pairs and a final odd digit are packed, the fixed header octets and that Len is the final buffer length; that the library's own PLMN conversion places the digits identically; and that the PLMN announced at NG Setup is octets 1..3 of the same encoder's output and is what TestPlmn remembers. Digit placement is the entire content of these encodings, so placement + digit-value mapping is the property for well-formed IMSIs.",
  "Level 'other'. Restructured encoders (e.g. table/loop driven packing) are reported as undecided, not as violations. Not decided: non-decimal input characters.",
  "DESIGN.md §5 C11")

claim("C17",
  "bit-provenance abstract interpretation (AMF-ID split, PLMN digits), canonical access-path comparison of the S-NSSAI forms, index-range rule (constant index < octets of the case, variable index dominated by index < len), per-state analysis of the PCO decoder's switch-on-state loop, size bookkeeping of the PCO Add* helpers",
  "Decides for all inputs the placement/partition facts of the five converters and that the two directions of each converter agree on sizes and field order, including index safety of the dual-stack address and the 'container appended exactly once, even when the list ends after an empty container' discipline of the PCO decoder.",
  "Level 'other'. Not decided: inverse laws as value equalities; net/hex library behaviour (trusted).",
  "DESIGN.md §5 C17")

claim("C15",
  "canonical access-path matching of the f1/f2345/OPc/AUTN byte loops against the TS 35.206 tables (rotation index offsets, XOR constants, output slices, nil-guards), sign/interval analysis of the comparison helper's returns per inequality branch plus a known-bad-idiom rule, argument-role and control-dependence checks of Milenage_check / Milenage_auts",
  "Decides for all K/OP/RAND/SQN/AMF the table facts of TS 35.206 the implementation rests on (r1..r5, c1..c5, which half of which OUT block is which output, IN1 and AUTN layouts, OPc) and the two-sided acceptance logic: the comparison helper's result has the sign of the first differing octet and is 0 only for equal buffers, freshness is decided over all 6 SQN octets, MAC-A and MAC-S are compared over all 8 octets, and the resynchronisation token is built over the UE's SQN with AMF 0000.",
  "Level 'other'. Trusted: crypto/aes. Not decided: numerical equality with TS 35.208 vectors (nothing is executed).",
  "DESIGN.md §5 C15")

claim("C20",
  "shared-state reachability over the VTA whole-program call graph: every repository package-level variable touched by a function reachable from the codec/security entry points is classified (writers outside init, address escapes, mutability of its kind); goroutine/channel scan",
  "Decides for every schedule at once that no mutable package-level state is reachable from NGAP/APER/NAS encode+decode, NASEncode/NASDecode, key derivation and NASEncrypt/NASMacCalculate other than the recorded SNOW 3G generator state (known finding F18: NEA1/NIA1 are not safe concurrently). For code that starts no goroutine and holds no lock this is exactly what makes concurrent use for different UEs race-free and schedule-independent; a new cache, counter or scratch buffer at package level - synchronised or not - is reported with its writers.",
  "Level 'other'. Trusted: logrus handles are internally locked, reflect.Type is immutable, dependencies are race-free. Known finding F18 (snow3g.lfsr/fsm) is listed in known_findings.json with its demonstration.",
  "DESIGN.md §5 C20")

claim("C08",
  "AST/type model of the 45 generated Encode<X>/Decode<X> pairs (token sequences of IEI/Len/Value moves per IE), sibling cross-checking: encode vs decode of the same message, dispatch tables of nas.go, deviant detection across the 45 decode loops",
  "Decides for all 45 message types and all 159 (message, optional IE) pairs at once the structural preconditions of losslessness: both directions move the same fields in the same order with the same formats, every optional IE has exactly one writer block and one reader case under its own, pairwise distinct, correctly ranged IEI constant, length-prefixed arrays are sliced by their length on both sides, buffers are sized before being read, every message type is dispatched to its own codec in both directions and unknown types/EPDs are errors, and all decoders share one loop preamble (a decoder that stops one octet early or normalises half-octet IEIs differently is a deviant).",
  "Level 'other'. Not decided: value equality of round trips (e.g. a Len field that disagrees with its buffer, capacity of fixed arrays). A hand-written I/O statement that does not follow the generated idiom is reported as a deviation from the 44 sibling codecs.",
  "DESIGN.md §5 C08")

claim("C09",
  "comparison of the extracted code-side table (mandatory order/format/size, optional IEI/format/length width per message) with the TS 24.501 clause 8.2/8.3 table compiled into the checker (363 rows) and of the message-type/EPD/header-type constants with clause 9; AST rule over the emulator's message constructors (own message type, EPD, field, IEI constants, length-of-stored-buffer)",
  "Decides that the wire tables the codec implements are the standard's for all 45 messages and all field values at once - the oracle is the specification table, not the library's own constants, so a wrong IEI, swapped mandatory field or one- instead of two-octet length is a violated row - and that the constructors the emulator uses put the right message type, EPD and IEI constants into the messages they build. Two genuine deviations of the pinned library are listed as known findings (F13 Last visited registered TAI TV8 vs TV7, F14 Requested QoS rules TLV vs TLV-E).",
  "Level 'other'. The standard's table was transcribed by hand (no specification text offline) and vetted row by row; MappedEPSBearerContexts in the modification messages follows the library's release (IEI 0x7F). Not decided: semantic contents of IE values.",
  "DESIGN.md §5 C09")

claim("C12",
  "writer/reader table agreement (extractor's IEI table vs the library's own PDU SESSION ESTABLISHMENT ACCEPT codec model and TS 24.501 8.3.2), linear-form comparison of every fixed offset with the layout computed from the library's message definitions, classification of the element-skip forms of the walk, loop-progress analysis with wrap-aware intervals, known-bad-idiom rule (unaligned byte search)",
  "Decides for all network-chosen lengths at once that the extractor's offsets and skip table line up with the message layout (they are linear in the variable lengths, and the linear forms are compared, so QoS-rule or container lengths cannot shift them), that the IE walks step over whole elements, and - for arbitrary input - that every back edge of both loops strictly advances the index, which is the termination clause of the property.",
  "Level 'other'. Not decided: equality of extracted values for encodings outside the assumed APER shape (length determinants >= 128), panics on truncated input (termination by panic). R12.pos (ProtocolIEs.List[2]) is informational only.",
  "DESIGN.md §5 C12")

claim("C03",
  "schema model of all ngapType structs from go/types (struct tags parsed with the codec's own vocabulary; CHOICE/ENUMERATED/open-type consistency; IE ids and procedure codes against TS 38.413 tables), path-sensitive lost-error analysis over the encoder's SSA, bit-provenance of the emitted length-determinant octets under interval-derived value ranges, encoder/decoder clone comparison of guard chains and loops, never-initialised-global analysis",
  "Decides for all values at once the inputs and discipline canonical encoding depends on: the constraint metadata of all 1431 types is well formed, internally consistent and equal to TS 38.413 for the emulator-path types and for every IE id / procedure code; no refusal (out-of-range, wrong size, unset CHOICE) can be lost inside the encoder; the length determinant has exactly the X.691 10.9 forms with the right thresholds; INTEGER octet counting distinguishes the constrained and unconstrained cases; BIT STRING padding bits are cleared; and the encoder agrees with the decoder wherever the two are clones.",
  "Level 'other'. Not decided: that every primitive's bit pattern equals X.691 for every value (no independent encoder is run). TS 38.413 tables were transcribed by hand.",
  "DESIGN.md §5 C03")

claim("C04",
  "single-tag-parser and who-writes-constraints analysis, schema dispatch uniqueness (shared with C03), acyclicity of the type graph, encoder/decoder clone comparison, bit-provenance of the length-determinant decoder, SEQUENCE OF lower-bound symmetry; plus the complete rule set of C03 as a component (a round trip needs a correct encoder)",
  "Decides the structural preconditions of decode(encode(x)) = x over the whole schema: both directions see the same constraints (one parser, one tag key, equal top-level strings), the open-type dispatch is unambiguous (unique reference values equal to IE ids / procedure codes, earlier reference field, Present = position), the schema is acyclic, mirrored primitives agree in every cloned guard and loop, the length decoder inverts the length encoder form by form, and SEQUENCE OF counts are offset by the lower bound on exactly the same branches.",
  "Level 'other'. Not decided: value equality of a round trip for every value; acceptance of other encoders' output beyond these facts.",
  "DESIGN.md §5 C04")

claim("C14",
  "obligation list over every index/slice/division/type-assertion/allocation site of the decoder functions (SSA), each discharged by a dominating-guard prover (i < len, hi <= len with lo a summand, HasPrefix-prefix slices) or by a named, argued exception tied to the exact expression; cursor-update analysis with linear forms of guard and update; checked-read dominance; fragment-loop progress; allocation-size provenance; acyclic-schema recursion bound; explicit-panic scan; never-initialised-global analysis",
  "Decides for every input at once that each place where the decoder could panic is either provably in range or argued, that the cursor only moves by amounts that were compared with the input length, that bit reads cannot skip the remaining-bits check, that element counts sizing allocations are constrained values or single octets, that recursion follows an acyclic schema, and that nothing in the decoder terminates the process - so a changed guard, a new unchecked fast path or an unbounded count shows up as an undischarged obligation naming the site.",
  "Level 'other'. 19 sites rest on hand arguments (recorded per site in the evidence). Not decided: panics inside reflect for other reasons, actual time/memory figures.",
  "DESIGN.md §5 C14")

claim("C13",
  "straight-line interpretation of all 52 NGAP builders over SSA (reverse-postorder store sequences split into IE segments), each segment's (IE id, Present index, allocated alternative) triple checked against the ngapType schema model and the message header against the TS 38.413 9.4.4 procedure table; access-path parameter-flow rules for the 14 build-and-encode wrappers (role of each parameter, no conversion, nowhere else, error returned unchanged); TS 38.413 9.2 IE tables for the 9 messages main sends; who-writes-PLMN rule; branch-labelled all-paths check of the INTEGER range refusal; leaf-type constraint table; plus the complete rule set of C03 (APER encoder) as a component",
  "Decides for all argument values at once what a builder can get wrong while still compiling: an IE whose id, Present index and allocated alternative disagree (the encoder refuses it or dereferences nil), a message header whose class/procedure code/Value.Present disagree with each other or with TS 38.413, an identifier parameter stored in the wrong IE, through a narrowing conversion, replaced by a constant or not appended, a wrapper that reorders arguments or swallows the encoder's error, a mandatory IE missing/duplicated/with the wrong criticality in a message the emulator sends, a PLMN that is not the announced one, the IPv4 octets of the GTP address, and the refusal of out-of-range INTEGERs (value < lb, value > ub on non-extensible types such as the three identifier types).",
  "Level 'other'. Not decided: that encoding succeeds for every in-range argument beyond these facts (sizes of nested lists, transfer contents); bit-exactness of the encoding (C03). TS 38.413 9.2 tables transcribed by hand for 9 messages. Two defects found by these rules were repaired (F16, F19).",
  "DESIGN.md §5 C13")

claim("C01",
  "procedure-script analysis of ManageNGSetup/RegisterUE: all entry-to-return paths enumerated over SSA with send/receive/derive/assign events, every sent buffer resolved by def-use to its build-and-encode wrapper, NAS constructor and security envelope (header type, context flags); access-path parameter-flow rules (own NGAP ids in their roles, AMF id from IE 0 of the decoded DownlinkNASTransport, RAND/AUTN/RES* flow, SUCI of own SUPI, serving-network-name branches); positional-IE justification against TS 38.413 9.2; plus the complete rule sets of C03, C05, C06, C07, C11 and C13 run as components",
  "Decides, for every configuration and every AMF choice at once, the structural conditions the registration exchange needs: the five uplink messages are the right ones in the right order on every path, each answer follows a receive, Registration Request and Authentication Response go out plain, Security Mode Complete with header type 4 and a new context right after the key derivation, Registration Complete with header type 2 and no COUNT reset; the AMF-assigned id is learned from the right IE of the right message before its first use and handed, with the RAN id, in the right parameter of every builder; RAND and AUTN of the received challenge feed the derivation and its RES* the response; the serving network name pads the MNC exactly when it has two digits; the announced PLMN is the SUCI's; main wires configuration to drivers unchanged; PPID 60. The component rule sets decide the codec, key derivation, NAS protection, cipher, SUCI and builder layers underneath (see those properties).",
  "Level 'other'. Not decided: acceptance by a real AMF for every runtime value (no AMF model is executed), that the AMF's answers have the expected type, the NAS wire layout of the messages (C09, separate because it carries listed findings on messages this exchange does not use).",
  "DESIGN.md §5 C01")

claim("C02",
  "procedure-script analysis of EstablishPDU/ServiceRequest/ReleasePDU/DeregisterUE/ModifyPDU (all paths, send/receive events, resolved wrappers, NAS constructors and security envelopes); identifier-flow rules incl. re-learning of the AMF id after a new InitialUEMessage; positional-IE vs select-by-id analysis of received IE lists; interval + conversion-chain analysis of the PDU session identity; symbolic loop-bound ordering for main's test-mode loops (list-growth phis, counted-loop recognition, LE(bound, registrations) through stgutg.Min); all-paths check of stgutg.Min; dominance ordering of the procedure loops; who-may-write rule for COUNT and keys; plus the complete rule sets of C06, C12, C13 and C16 as components",
  "Decides for all UE counts, repetition counts and network-assigned values at once: every lifecycle driver sends exactly its scripted messages, protected under the current context and never with a COUNT reset; each acts with its own UE's ids and security context; ids assigned by the AMF are read from the message that assigns them; received IE lists are read by id or at positions the standard guarantees; one PDU session identity per procedure; EstablishPDU reports exactly what it decoded and main registers exactly that; no list index can pass the number of registered UEs for any configured repetition count; service and release never run for a UE without an established session; procedures run in lifecycle order; COUNT has a single writer. Two defects found by these rules were repaired (F20, F23); two are listed (F09, F21).",
  "Level 'other'. Not decided: acceptance by a real AMF/SMF, timing (the drivers pace themselves with sleeps), that answers have the expected type. Known findings: F09 (PDU session id = SUPI mod 10000, NAS/NGAP disagree and NGAP refuses > 255), F21 (release response sent without reading the command).",
  "DESIGN.md §5 C02")

# ---- techniques added in the second build round (appended to the technique / note of the rounds before)
EXTRA_TECH = {
 "C01": "; string-template normalisation (concatenation / fmt.Sprintf / helper) of the serving network name; accessor bit-placement model of the NAS IE types used by the constructors; history-independence (shared-state reachability) of message construction",
 "C02": "; history-independence (shared-state reachability over VTA) of the build-and-encode wrappers and builders; accessor bit-placement model of the NAS IE types",
 "C03": "; no-write-to-input and unsigned-underflow obligations of the encoder (interval analysis through math/bits ranges and one-line helpers); frozen TS 38.413 schema table (5630 rows: field order, constraint tags, Go types, constants) compared with go/types; per-path (phi-resolved) enumeration of the string primitives' preludes for the length-determinant offset rule (X.691 10.9.3.3/10.9.3.5)",
 "C04": "; entry-point rule (a pre-check in front of the codec makes the verdict undecided); loop-carried accumulator analysis of the fragment loops (only extended, never replaced); string length-determinant offset rule on the decoder side",
 "C05": "; abort-condition classification of the derivation (error tests only; MAC check inputs); shared-state reachability (no package-level cache / scratch buffer below the derivation functions); string-template check of the serving network name",
 "C06": "; interprocedural path enumeration (the walker descends into same-package helpers, parameters rendered as the caller's arguments); composed bit-level state transformers of the security.Count methods (effects of successive stores and helper calls composed, so the summary does not depend on the helper split)",
 "C07": "; structural rules for the GF(2^64) helpers (MULx bit 63, MULxPOW, MUL indexed/iterative) and loop-carried accumulator analysis of the EIA1 Horner loop",
 "C08": "; freshness (non-aliasing) analysis of the encoder's result buffer; bit-provenance accessor model of the 151 IE value types incl. SetLen value/size rules",
 "C09": "; bit-provenance accessor model of the 151 IE value types (735 Get/Set pairs summarised from SSA): pair agreement, frozen TS 24.501 9.11 layout table, order-sensitive neighbour-destruction rule over the constructors' setter calls, SetLen rules",
 "C11": "; loop unrolling + per-MNC-length merge resolution (Pather.Bind) with interprocedural constant folding for loop-form packing; backward origin tracing of constants reaching hexCharToByte",
 "C12": "; guard-tightness rule (slice guarded by a bound one octet too strict, incl. inclusive-position helpers); generalised loop recognition (index + k <= len), stop-at-match reachability rule, shared R2.report rule on EstablishPDU's extraction inputs",
 "C13": "; history-independence rule: shared-state reachability (VTA) from all wrappers/builders incl. references loaded from package-level variables, TestPlmn the only documented state",
 "C14": "; scope extended to package ngap; constant-index-under-length-guard prover; signed shift-count obligation list with interval analysis",
 "C15": "; dominance rule that the freshness test guards MAC verification; shared-state reachability of the exported Milenage functions",
 "C16": "; shared-state reachability of UE creation incl. escape analysis of references loaded from package-level variables; configuration-load rule (values not rewritten after parsing)",
 "C17": "; S-NSSAI constructor rule (length chosen on the SD string being empty, not on its value); accessor model of the NAS IE types (OR-without-clear, carrying additions) as in C09",
 "C19": "; read-in-loop rule over the procedures and their helpers; the decoder-totality obligations of C14 as a component (fresh-cursor bounds guards)",
 "C10": "; interprocedural path enumeration (helpers of NASDecode are walked as part of its paths)",
 "C18": "; endpoint-role and lossy-conversion rule for ConnectToAmf/getNgapIp; credential-role rule; known-grammar rule for decisions delegated to package flag",
 "C20": "; use analysis of references (slices, maps, pointers, structs carrying them) loaded from package-level variables",
}
for _pid, _add in EXTRA_TECH.items():
    if _pid in CLAIMED:
        _t, _x, _n, _r = CLAIMED[_pid]
        CLAIMED[_pid] = (_t.rstrip() + _add, _x, _n, _r)
