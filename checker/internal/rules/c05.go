package rules

import (
	"fmt"
	"os"
	"go/token"
	"go/types"
	"regexp"
	"strings"

	"golang.org/x/tools/go/ssa"

	"stgverif/internal/core"
)

func init() { Registry["C05"] = c05 }

const (
	fnKDF    = pUeau + ".GetKDFValue"
	fnKDFLen = pUeau + ".KDFLen"
	pMilW    = "github.com/wmnsk/milenage"
)

// inlinedCall is a call of `target` found in fn or, through calls of functions of
// the same package (depth <= 3), in its callees, with argument paths expressed in
// terms of fn's own parameters.
type inlinedCall struct {
	args []string
	pos  token.Pos
	via  string
	self string // path of the call value itself
}

func substParams(s string, actual []string) string { return core.SubstParams(s, actual) }

func inlinedCalls(fn *ssa.Function, target string, depth int) []inlinedCall {
	var out []inlinedCall
	p := core.NewPather(fn)
	p.Inline = true
	for _, ci := range core.Calls(fn) {
		name := core.CalleeName(ci.Common())
		var as []string
		for _, a := range ci.Common().Args {
			as = append(as, p.Path(a))
		}
		if name == target {
			self := ""
			if v, ok := ci.(ssa.Value); ok {
				self = p.Path(v)
			}
			out = append(out, inlinedCall{args: as, pos: ci.Pos(), self: self})
			continue
		}
		callee := ci.Common().StaticCallee()
		if callee == nil || depth >= 3 || len(callee.Blocks) == 0 || fnPkgPath(callee) != fnPkgPath(fn) || callee == fn {
			continue
		}
		for _, ic := range inlinedCalls(callee, target, depth+1) {
			var sub []string
			for _, a := range ic.args {
				sub = append(sub, substParams(a, as))
			}
			via := shortName(name)
			if ic.via != "" {
				via += ">" + ic.via
			}
			out = append(out, inlinedCall{args: sub, pos: ci.Pos(), via: via, self: substParams(ic.self, as)})
		}
	}
	return out
}

func c05(c *core.Ctx) map[string]interface{} {
	c.Explanation = "Static wiring check of the 5G-AKA key hierarchy (C05). Decided: (R5.fc) the FC constants are 6A/6B/6C/6D/69 (TS 33.501 Annex A) and each derivation uses the FC of its role; (R5.pl) every KDF parameter is followed by the 2-octet big-endian length of the same value (TS 33.220 B.2), the parameter lists are K_AUSF(SNN, SQN xor AK = AUTN[0..5]), K_SEAF(SNN), K_AMF(SUPI digits, ABBA 00 00), K_NASenc(0x01, ciphering alg), K_NASint(0x02, integrity alg); (R5.chain) each derivation is keyed with the output of the previous one starting from CK||IK of one f2345 run over the function's RAND, the 128-bit NAS keys are octets 16..31 of the KDF output and land in KnasEnc resp. KnasInt; (R5.kdf) GetKDFValue is HMAC-SHA-256(key, FC || P0 || L0 || ...) and KDFLen a 2-octet big-endian length; (R5.op) Milenage is built from OP exactly when no OPc is configured and from OPc otherwise, and RES* is ComputeRESStar(mcc, mnc) of the same Milenage instance. Calls are collected through same-package helpers (inlining depth 3). (R5.abort) the derivation ends the process only on a decode or library error, and a MAC-A verification added to it - whether it aborts or gives up by returning without a result - has to use the AMF octets of the received AUTN; (R5.pure) no package-level cache or scratch buffer is reachable from the derivation functions (keys depend on this call's inputs only); (R1.snn) the serving network name handed to the derivation is 5G:mnc<3 digits>.mcc<mcc>.3gppnetwork.org built from the MNC and MCC parameters in their roles; (R16.cred) the subscription record the derivation reads is filled with K, OPc and OP each in its own field, in whatever form it is built (field stores or a composite literal), and a helper that precomputes OPc is handed OP and K in their roles. NOT decided: HMAC/SHA-256/AES arithmetic and the Milenage library github.com/wmnsk/milenage (trusted), numerical equality with a network-side implementation. (components) the rule set of C15 (Milenage f1..f5*, AUTN/AUTS checks) is run as part of this check."
	c.Assumptions = []string{"crypto/hmac, crypto/sha256 and github.com/wmnsk/milenage (f2345, ComputeRESStar incl. its own FC 6B and SNN construction) are correct",
		"FC values per TS 33.501: A.2 K_AUSF 0x6A, A.4 RES* 0x6B, A.6 K_SEAF 0x6C, A.7 K_AMF 0x6D, A.8 algorithm keys 0x69"}
	r0swap(c)
	r5fc(c)
	r5kdfX(c)
	r5kamfX(c)
	r5algX(c)
	r5deriveX(c)
	r5pure(c)
	r5abort(c)
	r1snn(c)
	r16cred(c) // the subscription the derivation reads holds K, OPc and OP in their own fields (shared with C16)
	include(c, "C15")
	return nil
}

func constStringOf(c *core.Ctx, pkg, name string) (string, bool) {
	pk := c.P.Pkg(pkg)
	k, ok := pk.Types.Scope().Lookup(name).(*types.Const)
	if !ok {
		return "", false
	}
	s := k.Val().ExactString()
	if len(s) >= 2 && s[0] == '"' {
		return s[1 : len(s)-1], true
	}
	return s, true
}

func r5fc(c *core.Ctx) {
	const R = "R5.fc"
	c.Rule(R, "FC constants equal TS 33.501 Annex A; algorithm-type distinguishers 0x01 (NAS-enc) / 0x02 (NAS-int)")
	for _, kv := range [][2]string{{"FC_FOR_KAUSF_DERIVATION", "6A"}, {"FC_FOR_RES_STAR_XRES_STAR_DERIVATION", "6B"}, {"FC_FOR_KSEAF_DERIVATION", "6C"},
		{"FC_FOR_KAMF_DERIVATION", "6D"}, {"FC_FOR_ALGORITHM_KEY_DERIVATION", "69"}} {
		v, ok := constStringOf(c, pUeau, kv[0])
		if !ok {
			c.Undecided("anchor constant UeauCommon.%s not found", kv[0])
		}
		c.Check(strings.EqualFold(v, kv[1]), R, "UeauCommon."+kv[0], token.NoPos, "="+v, "%s must be %s, is %q", kv[0], kv[1], v)
	}
	c.Check(mustConst(c, pSec, "NNASEncAlg") == 1, R, "security.NNASEncAlg", token.NoPos, "=1", "N-NAS-enc-alg must be 0x01 (TS 33.501 A.8)")
	c.Check(mustConst(c, pSec, "NNASIntAlg") == 2, R, "security.NNASIntAlg", token.NoPos, "=2", "N-NAS-int-alg must be 0x02 (TS 33.501 A.8)")
}

func r5kdf(c *core.Ctx) {
	const R = "R5.kdf"
	c.Rule(R, "GetKDFValue = HMAC-SHA-256(key, FC || params in order); KDFLen = 2-octet big-endian len")
	{
		fn := mustFunc(c, pUeau, "KDFLen")
		p := core.NewPather(fn)
		ok := false
		for _, ci := range core.CallsTo(fn, "encoding/binary.bigEndian.PutUint16") {
			a := ci.Common().Args
			if blockLen(a[1]) == 2 && p.Path(a[2]) == "call:builtin.len(p0)" && retPathIs(fn, p, p.Path(a[1])) {
				ok = true
			}
		}
		c.Check(ok && len(fn.Blocks) == 1, R, "UeauCommon.KDFLen", fn.Pos(), "PutUint16(BigEndian, 2 octets, len(input))", "KDFLen must be the 2-octet big-endian length of its input")
	}
	{
		fn := mustFunc(c, pUeau, "GetKDFValue")
		p := core.NewPather(fn)
		hm := core.CallsTo(fn, "crypto/hmac.New")
		okH := len(hm) == 1 && p.Path(hm[0].Common().Args[0]) == "func:crypto/sha256.New" && p.Path(hm[0].Common().Args[1]) == "p0"
		c.Check(okH, R, "UeauCommon.GetKDFValue:hmac", fn.Pos(), "hmac.New(sha256.New, key)", "the KDF must be HMAC-SHA-256 keyed with its first argument")
		// S starts as hex(FC)
		dec := core.CallsTo(fn, "encoding/hex.DecodeString")
		okFC := len(dec) == 1 && p.Path(dec[0].Common().Args[0]) == "p1"
		c.Check(okFC, R, "UeauCommon.GetKDFValue:fc", fn.Pos(), "S = hex(FC) || ...", "S must start with the hex-decoded FC")
		// loop: S = append(S, p...) over range param in order
		okApp := false
		for _, ci := range core.CallsTo(fn, "builtin.append") {
			a := ci.Common().Args
			src := p.Path(a[1])
			if strings.HasPrefix(src, "p2[") && strings.Contains(src, "iv") {
				okApp = true
			}
		}
		c.Check(okApp, R, "UeauCommon.GetKDFValue:params", fn.Pos(), "S = append(S, param[i]...) for i in order", "every parameter must be appended to S in argument order")
		// Write(S) then Sum(nil)
		okW, okS := false, false
		for _, ci := range core.Calls(fn) {
			n := core.CalleeName(ci.Common())
			if n == "invoke:(io.Writer).Write" || strings.HasSuffix(n, ").Write") {
				okW = true
			}
			if strings.HasSuffix(n, ").Sum") {
				if k, isK := ci.Common().Args[0].(*ssa.Const); isK && k.Value == nil {
					okS = true
				}
			}
		}
		c.Check(okW && okS, R, "UeauCommon.GetKDFValue:sum", fn.Pos(), "kdf.Write(S); return kdf.Sum(nil)", "the KDF must MAC S and return the 32-octet digest")
	}
}

func retPathIs(fn *ssa.Function, p *core.Pather, want string) bool {
	for _, b := range fn.Blocks {
		for _, in := range b.Instrs {
			if r, ok := in.(*ssa.Return); ok && len(r.Results) >= 1 && p.Path(r.Results[0]) == want {
				return true
			}
		}
	}
	return false
}

// splitTop splits "[a,b,c]" at top-level commas.
func splitTop(s string) []string {
	s = strings.TrimSpace(s)
	if len(s) < 2 || s[0] != '[' || s[len(s)-1] != ']' {
		return nil
	}
	s = s[1 : len(s)-1]
	var out []string
	depth, start := 0, 0
	inStr := false
	for i := 0; i < len(s); i++ {
		ch := s[i]
		if ch == '"' && (i == 0 || s[i-1] != '\\') {
			inStr = !inStr
		}
		if inStr {
			continue
		}
		switch ch {
		case '(', '[', '{':
			depth++
		case ')', ']', '}':
			depth--
		case ',':
			if depth == 0 {
				out = append(out, s[start:i])
				start = i + 1
			}
		}
	}
	out = append(out, s[start:])
	return out
}

// checkKDFCall verifies FC, key and the (P, L(P)) pairing of one KDF call.
func checkKDFCall(c *core.Ctx, key string, ic inlinedCall, wantKey func(string) bool, wantKeyDesc, wantFC string, wantParams []func(string) bool, paramDesc []string) {
	const RF, RP, RC = "R5.fc", "R5.pl", "R5.chain"
	c.Sites(1)
	fc := strings.Trim(ic.args[1], "\"")
	c.Check(strings.EqualFold(fc, wantFC), RF, key+":fc", ic.pos, fc, "FC is %s, want %s", ic.args[1], wantFC)
	c.Check(wantKey(ic.args[0]), RC, key+":key", ic.pos, wantKeyDesc, "KDF key is %s, want %s", clip(ic.args[0]), wantKeyDesc)
	ps := splitTop(ic.args[2])
	if ps == nil || len(ps) != 2*len(wantParams) {
		c.Fail(RP, key+":params", ic.pos, "expected %d (P,L) pairs, parameter list is %s", len(wantParams), clip(ic.args[2]))
		return
	}
	for i, w := range wantParams {
		pv, lv := ps[2*i], ps[2*i+1]
		c.Check(w(pv), RP, fmt.Sprintf("%s:P%d", key, i), ic.pos, paramDesc[i], "P%d is %s, want %s", i, clip(pv), paramDesc[i])
		c.Check(lv == "call:"+fnKDFLen+"("+pv+")", RP, fmt.Sprintf("%s:L%d", key, i), ic.pos, "L = KDFLen(P)", "L%d is %s, want the length of P%d (%s)", i, clip(lv), i, clip(pv))
	}
}

func clip(s string) string {
	if len(s) > 160 {
		return s[:157] + "..."
	}
	return s
}

func eq(want string) func(string) bool { return func(s string) bool { return s == want } }

func r5kamf(c *core.Ctx) {
	fn := mustFunc(c, pTglib, "RanUeContext.DerivateKamf")
	calls := inlinedCalls(fn, fnKDF, 0)
	if len(calls) != 3 {
		c.Fail("R5.chain", "tglib.DerivateKamf:kdf-calls", fn.Pos(), "expected 3 KDF calls (K_AUSF, K_SEAF, K_AMF), found %d", len(calls))
		return
	}
	// DerivateKamf(ue, key, snName, SQN, AK)
	checkKDFCall(c, "tglib.DerivateKamf:K_AUSF", calls[0], eq("p1"), "CK||IK (the key argument)", "6A",
		[]func(string) bool{eq("p2"), eq("p3")}, []string{"serving network name", "SQN xor AK"})
	checkKDFCall(c, "tglib.DerivateKamf:K_SEAF", calls[1], eq(calls[0].self), "K_AUSF (output of the first derivation)", "6C",
		[]func(string) bool{eq("p2")}, []string{"serving network name"})
	isSupiDigits := func(s string) bool {
		return strings.HasPrefix(s, "call:regexp.Regexp.FindStringSubmatch(call:regexp.Compile(") && strings.HasSuffix(s, ",p0.Supi)[1]")
	}
	checkKDFCall(c, "tglib.DerivateKamf:K_AMF", calls[2], eq(calls[1].self), "K_SEAF (output of the second derivation)", "6D",
		[]func(string) bool{isSupiDigits, eq("[0,0]")}, []string{"SUPI digits (regexp group 1 of ue.Supi)", "ABBA 00 00"})
	// regexp captures exactly the digits
	p := core.NewPather(fn)
	for _, ci := range core.CallsTo(fn, "regexp.Compile") {
		re, _ := core.ConstString(ci.Common().Args[0])
		ok := false
		if rx, err := regexp.Compile(re); err == nil {
			m := rx.FindStringSubmatch("imsi-001010000000001")
			ok = len(m) == 2 && m[1] == "001010000000001"
			m2 := rx.FindStringSubmatch("imsi-310410123456789")
			ok = ok && len(m2) == 2 && m2[1] == "310410123456789"
		}
		c.Check(ok, "R5.pl", "tglib.DerivateKamf:supi-regexp", ci.Pos(), re, "the SUPI pattern %q does not capture the IMSI digits as group 1", re)
	}
	// result stored in ue.Kamf
	stored := false
	for _, b := range fn.Blocks {
		for _, in := range b.Instrs {
			if st, ok := in.(*ssa.Store); ok && p.Path(st.Addr) == "p0.Kamf" && p.Path(st.Val) == calls[2].self {
				stored = true
			}
		}
	}
	c.Check(stored, "R5.chain", "tglib.DerivateKamf:store-Kamf", fn.Pos(), "ue.Kamf = K_AMF", "the K_AMF derivation result is not what is stored in ue.Kamf")
}

func r5alg(c *core.Ctx) {
	fn := mustFunc(c, pTglib, "RanUeContext.DerivateAlgKey")
	calls := inlinedCalls(fn, fnKDF, 0)
	if len(calls) != 2 {
		c.Fail("R5.chain", "tglib.DerivateAlgKey:kdf-calls", fn.Pos(), "expected 2 KDF calls (K_NASenc, K_NASint), found %d", len(calls))
		return
	}
	copies := inlinedCalls(fn, "builtin.copy", 0)
	for _, t := range []struct {
		name, typ, alg, dst string
	}{{"K_NASenc", "[1]", "[p0.CipheringAlg]", "p0.KnasEnc"}, {"K_NASint", "[2]", "[p0.IntegrityAlg]", "p0.KnasInt"}} {
		// find the call whose P0 is the distinguisher
		var ic *inlinedCall
		for i := range calls {
			ps := splitTop(calls[i].args[2])
			if len(ps) >= 1 && ps[0] == t.typ {
				ic = &calls[i]
			}
		}
		key := "tglib.DerivateAlgKey:" + t.name
		if ic == nil {
			c.Fail("R5.pl", key+":P0", fn.Pos(), "no derivation uses the algorithm type distinguisher %s", t.typ)
			continue
		}
		checkKDFCall(c, key, *ic, eq("p0.Kamf"), "K_AMF (ue.Kamf)", "69",
			[]func(string) bool{eq(t.typ), eq(t.alg)}, []string{"algorithm type distinguisher " + t.typ, "algorithm identity " + t.alg})
		// copied [16:32] into the matching key field
		ok := false
		for _, cp := range copies {
			if cp.args[0] == t.dst && cp.args[1] == ic.self+"[16:32]" {
				ok = true
			}
		}
		c.Check(ok, "R5.chain", key+":low-128-bits", ic.pos, t.dst+" = out[16:32]", "%s must receive octets 16..31 of the %s derivation output", t.dst, t.name)
	}
}

func r5derive(c *core.Ctx) {
	const R, RO = "R5.chain", "R5.op"
	c.Rule("R5.fc", "each derivation uses the FC of its role")
	c.Rule("R5.pl", "KDF parameters come in (P, 2-octet length of the same P) pairs with the roles of TS 33.501 Annex A")
	c.Rule(R, "key chain CK||IK → K_AUSF → K_SEAF → K_AMF → K_NASenc/K_NASint; 128-bit keys = out[16:32]; inputs taken from one f2345 run")
	c.Rule(RO, "milenage.New(OP) exactly when OPc is empty, NewWithOPc otherwise; RES* = ComputeRESStar(mcc, mnc) of the same instance")
	fn := mustFunc(c, pTglib, "RanUeContext.DeriveRESstarAndSetKey")
	if len(fn.Params) != 7 {
		c.Fail(R, "tglib.DeriveRESstarAndSetKey:signature", fn.Pos(), "expected (ue, authSubs, autn, rand, snName, mnc, mcc)")
		return
	}
	p := core.NewPather(fn)
	kHex := "call:encoding/hex.DecodeString(p1.PermanentKey.PermanentKeyValue)#0"
	opHex := "call:encoding/hex.DecodeString(p1.Milenage.Op.OpValue)#0"
	opcHex := "call:encoding/hex.DecodeString(p1.Opc.OpcValue)#0"
	news := core.CallsTo(fn, pMilW+".New")
	newc := core.CallsTo(fn, pMilW+".NewWithOPc")
	okNew := len(news) == 1 && len(newc) == 1
	if okNew {
		a := news[0].Common().Args
		b := newc[0].Common().Args
		c.Check(p.Path(a[0]) == kHex && p.Path(a[1]) == opHex && p.Path(a[2]) == "p3", RO, "tglib.DeriveRESstarAndSetKey:New:args", news[0].Pos(), "New(K, OP, RAND)", "milenage.New must receive (K, OP, RAND), gets (%s, %s, %s)", clip(p.Path(a[0])), clip(p.Path(a[1])), p.Path(a[2]))
		c.Check(p.Path(b[0]) == kHex && p.Path(b[1]) == opcHex && p.Path(b[2]) == "p3", RO, "tglib.DeriveRESstarAndSetKey:NewWithOPc:args", newc[0].Pos(), "NewWithOPc(K, OPc, RAND)", "milenage.NewWithOPc must receive (K, OPc, RAND), gets (%s, %s, %s)", clip(p.Path(b[0])), clip(p.Path(b[1])), p.Path(b[2]))
		// branch: New under OpcValue == "" true edge
		okBr := false
		for _, blk := range fn.Blocks {
			iff, ok := blk.Instrs[len(blk.Instrs)-1].(*ssa.If)
			if !ok {
				continue
			}
			cond := p.Path(iff.Cond)
			var tEdge, fEdge *ssa.BasicBlock
			switch cond {
			case "(p1.Opc.OpcValue==\"\")":
				tEdge, fEdge = blk.Succs[0], blk.Succs[1]
			case "(p1.Opc.OpcValue!=\"\")":
				tEdge, fEdge = blk.Succs[1], blk.Succs[0]
			default:
				continue
			}
			if tEdge.Dominates(news[0].Block()) && fEdge.Dominates(newc[0].Block()) && len(tEdge.Preds) == 1 && len(fEdge.Preds) == 1 {
				okBr = true
			}
		}
		c.Check(okBr, RO, "tglib.DeriveRESstarAndSetKey:op-opc-branch", news[0].Pos(), "OPc empty ⇒ New(OP); otherwise NewWithOPc(OPc)", "the OP/OPc constructors are not selected by `OpcValue == \"\"` (OP-only and OPc configurations must give the same keys)")
	} else {
		c.Fail(RO, "tglib.DeriveRESstarAndSetKey:constructors", fn.Pos(), "expected one milenage.New (OP) and one milenage.NewWithOPc (OPc) call, found %d and %d", len(news), len(newc))
	}
	// F2345 once; CK||IK; DerivateKamf args
	f := core.CallsTo(fn, pMilW+".Milenage.F2345")
	dk := core.CallsTo(fn, pTglib+".RanUeContext.DerivateKamf")
	da := core.CallsTo(fn, pTglib+".RanUeContext.DerivateAlgKey")
	rs := core.CallsTo(fn, pMilW+".Milenage.ComputeRESStar")
	if len(f) != 1 || len(dk) != 1 || len(da) != 1 || len(rs) != 1 {
		c.Fail(R, "tglib.DeriveRESstarAndSetKey:calls", fn.Pos(), "expected exactly one F2345, DerivateKamf, DerivateAlgKey and ComputeRESStar call (found %d, %d, %d, %d)", len(f), len(dk), len(da), len(rs))
		return
	}
	c.Sites(4)
	fv := p.Path(f[0].(*ssa.Call))
	mil := p.Path(f[0].Common().Args[0])
	a := dk[0].Common().Args
	keyArg := p.Path(a[1])
	c.Check(keyArg == "call:builtin.append("+fv+"#1,"+fv+"#2)", R, "tglib.DeriveRESstarAndSetKey:CK||IK", dk[0].Pos(), "key = append(CK, IK)", "the K_AUSF key must be CK||IK of the f2345 run, is %s", clip(keyArg))
	c.Check(p.Path(a[0]) == "p0" && p.Path(a[2]) == "p4", R, "tglib.DeriveRESstarAndSetKey:snn", dk[0].Pos(), "DerivateKamf(ue, key, snName, …)", "DerivateKamf must receive the UE and the serving network name")
	c.Check(p.Path(a[3]) == "p2[0:6]", R, "tglib.DeriveRESstarAndSetKey:sqn-xor-ak", dk[0].Pos(), "SQN xor AK = AUTN[0:6]", "SQN xor AK must be octets 0..5 of AUTN, is %s", p.Path(a[3]))
	c.Check(core.Dominates(dk[0], da[0]) && p.Path(da[0].Common().Args[0]) == "p0", R, "tglib.DeriveRESstarAndSetKey:alg-keys-after-kamf", da[0].Pos(), "DerivateAlgKey(ue) after DerivateKamf", "the algorithm keys must be derived after K_AMF on the same UE")
	ra := rs[0].Common().Args
	c.Check(p.Path(ra[0]) == mil, RO, "tglib.DeriveRESstarAndSetKey:res-star:instance", rs[0].Pos(), "same Milenage instance as f2345", "RES* must be computed on the instance that ran f2345")
	c.Check(p.Path(ra[1]) == "p6" && p.Path(ra[2]) == "p5", RO, "tglib.DeriveRESstarAndSetKey:res-star:mcc-mnc", rs[0].Pos(), "ComputeRESStar(mcc, mnc)", "ComputeRESStar takes (mcc, mnc); it is given (%s, %s) where mnc=p5, mcc=p6", p.Path(ra[1]), p.Path(ra[2]))
	c.Check(core.Dominates(f[0], rs[0]), RO, "tglib.DeriveRESstarAndSetKey:res-after-f2345", rs[0].Pos(), "f2345 before RES*", "RES must be computed (f2345) before RES*")
	rv := p.Path(rs[0].(*ssa.Call)) + "#0"
	c.Check(retPathIs(fn, p, rv), RO, "tglib.DeriveRESstarAndSetKey:returns-res-star", rs[0].Pos(), "returns RES*", "the function must return the RES* it computed")
}

// r5pure: the derivation installs keys that depend on this call's inputs only.
func r5pure(c *core.Ctx) {
	if !c.Once("r5pure") {
		return
	}
	entries := []*ssa.Function{mustFunc(c, pTglib, "RanUeContext.DeriveRESstarAndSetKey"), mustFunc(c, pTglib, "RanUeContext.DerivateKamf"),
		mustFunc(c, pTglib, "RanUeContext.DerivateAlgKey"), mustFunc(c, pUeau, "GetKDFValue"), mustFunc(c, pUeau, "KDFLen"), mustFunc(c, pTglib, "GetAuthSubscription")}
	pureState(c, "R5.pure", "5G-AKA key derivation (DeriveRESstarAndSetKey, DerivateKamf, DerivateAlgKey, GetKDFValue)", entries, nil)
}

// r5abort: DeriveRESstarAndSetKey may end the process only on an error of a decode or
// library call (a malformed configured key, a Milenage error). Any other abort
// condition rejects an authentication challenge on the UE's own judgement; the one
// legitimate judgement is MAC-A verification, and that has to use the AMF octets of
// the received AUTN (autn[6:8]) — the AMF of a conformant network is its own choice,
// not the value stored with the subscription.
func r5abort(c *core.Ctx) {
	const R = "R5.abort"
	c.Rule(R, "DeriveRESstarAndSetKey aborts only on decode/library errors; a MAC-A check, if present, is computed over the AUTN's own AMF octets")
	fn := mustFunc(c, pTglib, "RanUeContext.DeriveRESstarAndSetKey")
	p := core.NewPather(fn)
	n := 0
	amfFromSubscription := false
	for _, ci := range core.Calls(fn) {
		name := core.CalleeName(ci.Common())
		if strings.HasPrefix(name, "github.com/wmnsk/milenage.New") {
			for _, a := range ci.Common().Args {
				if strings.Contains(p.Path(a), "AuthenticationManagementField") {
					amfFromSubscription = true
				}
			}
		}
	}
	ord := ordinals{}
	// the function and the helpers of its package it calls (an abort moved into a helper is the same abort)
	fns := []*ssa.Function{fn}
	seenFn := map[*ssa.Function]bool{fn: true}
	for i := 0; i < len(fns) && len(fns) < 12; i++ {
		for _, ci := range core.Calls(fns[i]) {
			if cal := ci.Common().StaticCallee(); cal != nil && fnPkgPath(cal) == pTglib && len(cal.Blocks) > 0 && !seenFn[cal] &&
				cal.Name() != "DerivateKamf" && cal.Name() != "DerivateAlgKey" {
				seenFn[cal] = true
				fns = append(fns, cal)
			}
		}
	}
	var sites []ssa.CallInstruction
	for _, f := range fns {
		for _, ci := range core.Calls(f) {
			if strings.HasPrefix(core.CalleeName(ci.Common()), "github.com/wmnsk/milenage.New") {
				pp := core.NewPather(f)
				for _, a := range ci.Common().Args {
					if strings.Contains(pp.Path(a), "AuthenticationManagementField") {
						amfFromSubscription = true
					}
				}
			}
			sites = append(sites, ci)
		}
	}
	for _, ci := range sites {
		p := core.NewPather(ci.Parent())
		name := core.CalleeName(ci.Common())
		isAbort := strings.HasSuffix(name, "/fatal.Fatalf") || strings.HasSuffix(name, "/fatal.Fatal") || strings.HasPrefix(name, "log.Fatal") || name == "os.Exit" || strings.HasPrefix(name, "log.Panic")
		if !isAbort {
			continue
		}
		n++
		key := "tglib.DeriveRESstarAndSetKey:" + ord.next("abort")
		conds := dominatingConds(p, ci.Block())
		if len(conds) == 0 {
			c.Fail(R, key, ci.Pos(), "unconditional abort")
			continue
		}
		cnd := conds[0]
		switch {
		case strings.HasSuffix(cnd, "!=nil)=T") || strings.HasSuffix(cnd, "==nil)=F"):
			c.Ok(R, key, ci.Pos(), "abort on "+clip(cnd))
		case strings.Contains(cnd, "bytes.Equal(") || strings.Contains(cnd, "reflect.DeepEqual(") || strings.Contains(cnd, "subtle.ConstantTimeCompare("):
			if amfFromSubscription {
				c.Fail(R, key, ci.Pos(), "the UE aborts the authentication when its own MAC-A differs from the one in AUTN, but computes MAC-A with the AMF field stored in the subscription data (AuthenticationManagementField) instead of the AMF octets of the received AUTN (autn[6:8]): every network whose AMF field differs from the configured constant is rejected although its AUTN is valid")
			} else {
				c.SoftUndecided("DeriveRESstarAndSetKey verifies a MAC (%s); the inputs of that verification are not modelled", clip(cnd))
			}
		default:
			c.SoftUndecided("DeriveRESstarAndSetKey aborts under a condition that is not an error test: %s", clip(cnd))
		}
	}
	// a verification that does not abort but gives up otherwise (returns without a result): the same judgement
	for _, f := range fns {
		pp := core.NewPather(f)
		for _, b := range f.Blocks {
			if len(b.Instrs) == 0 {
				continue
			}
			iff, ok := b.Instrs[len(b.Instrs)-1].(*ssa.If)
			if !ok {
				continue
			}
			cnd := pp.Path(iff.Cond)
			if os.Getenv("VERIF_DEBUG") != "" {
				fmt.Println("R5.abort cond", cnd)
			}
			if !(strings.Contains(cnd, "bytes.Equal(") || strings.Contains(cnd, "reflect.DeepEqual(") || strings.Contains(cnd, "subtle.ConstantTimeCompare(")) {
				continue
			}
			if !strings.Contains(cnd, ".F1(") {
				continue
			}
			// already judged as an abort site?
			abortBelow := false
			for _, ci := range sites {
				name := core.CalleeName(ci.Common())
				if ci.Parent() == f && (strings.HasSuffix(name, "/fatal.Fatalf") || strings.HasSuffix(name, "/fatal.Fatal")) {
					if cs := dominatingConds(pp, ci.Block()); len(cs) > 0 && strings.HasPrefix(cs[0], cnd) {
						abortBelow = true
					}
				}
			}
			if abortBelow {
				continue
			}
			key := "tglib.DeriveRESstarAndSetKey:" + ord.next("mac-check")
			if amfFromSubscription {
				c.Fail(R, key, iff.Cond.Pos(), "the UE gives up the authentication when its own MAC-A (f1) differs from the one in AUTN, but computes MAC-A with the AMF field stored in the subscription data (AuthenticationManagementField) instead of the AMF octets of the received AUTN (autn[6:8]): every network whose AMF field differs from the configured constant is rejected although its AUTN is valid")
			} else {
				c.SoftUndecided("DeriveRESstarAndSetKey verifies a MAC (%s); the inputs of that verification are not modelled", clip(cnd))
			}
		}
	}
	if n < 1 {
		c.Undecided("R5.abort: no abort site found in DeriveRESstarAndSetKey or its helpers (expected the decode/library error aborts)")
	}
}
