package rules

import (
	"sort"
	"strings"

	"golang.org/x/tools/go/ssa"

	"stgverif/internal/core"
)

// The main-level rules (R1.main, R2.clamp/order, R2.report, R16.dep, R18.load/flow/mode) read the
// bodies that run the two modes. In the reference tree that is main itself; a main that hands each
// mode to a function of its own (runTrafficMode(&c), runTestMode(&c)) is read through: the mode
// functions are further bodies, rendered with their parameters spelled as main spells the arguments,
// so `c.Configuration.Mnc` inside a mode function is the same name as in main.

type mainBody struct {
	fn    *ssa.Function
	p     *core.Pather
	first int // index of this body's first mode (0-based) in the order main runs them
	modes int // number of modes run in this body (ConnectToAmf calls)
	call  ssa.CallInstruction // the call in main that enters this body (nil for main itself)
}

var mainBodiesCache = map[*core.Ctx][]*mainBody{}

// mainOpaque: main hands part of a mode to a helper the main-level rules do not read through.
var mainOpaque = map[*core.Ctx]string{}

// mainUnreadable reports (as UNDECIDED) that main delegates in a form the rules do not follow: part of a
// mode - a procedure call, a look-up of the configuration - sits in a helper of package main that is
// not itself a function running a whole mode.
func mainUnreadable(c *core.Ctx, R string) bool {
	bodies := mainBodies(c)
	if mainOpaque[c] == "" {
		isBody := map[*ssa.Function]bool{}
		for _, b := range bodies {
			isBody[b.fn] = true
		}
		for _, b := range bodies {
			for _, ci := range core.Calls(b.fn) {
				g := ci.Common().StaticCallee()
				if g == nil || fnPkgPath(g) != pMain || len(g.Blocks) == 0 || isBody[g] || g.Parent() != nil {
					continue // (a function literal inside a body is part of that body as far as the rules go)
				}
				relevant := false
				for _, prm := range g.Params {
					if strings.Contains(prm.Type().String(), "stgutg.Conf") {
						relevant = true
					}
				}
				for _, cj := range core.Calls(g) {
					n := core.CalleeName(cj.Common())
					if strings.HasPrefix(n, pStg+".") || strings.HasPrefix(n, pTglib+".") || strings.HasPrefix(n, "net.") || strings.Contains(n, "xdpgtp") {
						relevant = true
					}
				}
				if relevant {
					mainOpaque[c] = g.Name()
				}
			}
		}
		if mainOpaque[c] == "" {
			mainOpaque[c] = "-"
		}
	}
	if who := mainOpaque[c]; who != "-" {
		c.SoftUndecided("%s: main hands part of a mode over to %s; the main-level rules read main and functions that run a whole mode", R, who)
		return true
	}
	return false
}

// mainBodies: main, followed - when main has no ConnectToAmf call of its own - by the functions of
// package main it calls that have one, in the order of their calls in main.
func mainBodies(c *core.Ctx) []*mainBody {
	if bs, ok := mainBodiesCache[c]; ok {
		return bs
	}
	mainFn := mustFunc(c, pMain, "main")
	mp := core.NewPather(mainFn)
	nMain := len(core.CallsTo(mainFn, pTglib+".ConnectToAmf"))
	out := []*mainBody{{fn: mainFn, p: mp, first: 0, modes: nMain}}
	if nMain == 0 {
		var calls []ssa.CallInstruction
		for _, ci := range core.Calls(mainFn) {
			g := ci.Common().StaticCallee()
			if g != nil && fnPkgPath(g) == pMain && len(g.Blocks) > 0 && len(core.CallsTo(g, pTglib+".ConnectToAmf")) > 0 {
				// a function that runs a whole mode (connects, sets up, creates and registers); a helper
				// that only wraps the connection is not a body the rules can read on its own
				if len(core.CallsTo(g, pStg+".ManageNGSetup")) == 0 || len(core.CallsTo(g, pStg+".RegisterUE")) == 0 || len(core.CallsTo(g, pStg+".CreateUE")) == 0 {
					mainOpaque[c] = g.Name()
					continue
				}
				calls = append(calls, ci)
			}
		}
		sort.Slice(calls, func(i, j int) bool { return calls[i].Pos() < calls[j].Pos() })
		first := 0
		for _, ci := range calls {
			g := ci.Common().StaticCallee()
			gp := core.NewPather(g)
			var names []string
			for _, a := range ci.Common().Args {
				names = append(names, mp.Path(a))
			}
			gp.ParamNames = names
			n := len(core.CallsTo(g, pTglib+".ConnectToAmf"))
			out = append(out, &mainBody{fn: g, p: gp, first: first, modes: n, call: ci})
			first += n
		}
	}
	mainBodiesCache[c] = out
	return out
}

type mainCall struct {
	ci ssa.CallInstruction
	b  *mainBody
}

// mainCallsTo: the calls of callee in the mode bodies, in the order main runs them.
func mainCallsTo(c *core.Ctx, callee string) []mainCall {
	var out []mainCall
	for _, b := range mainBodies(c) {
		for _, ci := range core.CallsTo(b.fn, callee) {
			out = append(out, mainCall{ci, b})
		}
	}
	return out
}

// modeBodies: the bodies that actually run a mode.
func modeBodies(c *core.Ctx) []*mainBody {
	var out []*mainBody
	for _, b := range mainBodies(c) {
		if b.modes > 0 {
			out = append(out, b)
		}
	}
	return out
}
