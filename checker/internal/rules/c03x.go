package rules

import (
	"fmt"
	"math"
	"sort"
	"strings"

	"golang.org/x/tools/go/ssa"

	"stgverif/internal/core"
)

// R3.agree (DESIGN §11.5): encoder and decoder primitives of the aligned-PER codec are
// interpreted abstractly with the bit-level accessors summarised as wire operations
// (align, bits(n), cv(range) = a constrained whole number). For every value of the
// controlling quantity (the value range) the two sides must start with the same wire
// operation — whatever loops, helpers or math/bits formulas compute the field widths.

type wireCase struct {
	lo, hi int64
	op     string // first wire operation of a successful path, "" when none, "!" for a refusal
}

// wireCases evaluates fn and returns, per outcome, the interval of the source vr the outcome
// is valid for and the wire operations it starts with (all of them when whole is set).
func wireCases(fn *ssa.Function, args []core.AVal, vr string, whole bool) ([]wireCase, error) {
	ex := core.NewExec()
	ex.MaxStates = 6000
	// field widths are case-split when they derive from the controlling quantity only
	// the innermost parenthesised part of the name: "(1+(ub-lb))" → "ub-lb"
	core0 := vr
	if i := strings.LastIndex(core0, "("); i >= 0 {
		core0 = core0[i+1:]
	}
	if i := strings.Index(core0, ")"); i > 0 {
		core0 = core0[:i]
	}
	ex.ForkLen = func(arg string) bool { return strings.Contains(arg, core0) }
	opName := func(ev *core.AEvent) string {
		n := ev.Callee
		short := n[strings.LastIndexByte(n, '.')+1:]
		switch short {
		case "putBitsValue":
			if len(ev.Args) == 3 {
				return "bits(" + core.ArgName(ev.Args[2]) + ")"
			}
		case "getBitsValue":
			if len(ev.Args) == 2 {
				return "bits(" + core.ArgName(ev.Args[1]) + ")"
			}
		case "appendAlignBits", "parseAlignBits":
			return "align"
		case "appendConstraintValue", "parseConstraintValue":
			if len(ev.Args) >= 2 {
				return "cv(" + core.ArgName(ev.Args[1]) + ")"
			}
		}
		return ""
	}
	self := fn.Name()
	ex.OnCall = func(ev *core.AEvent, m *core.AMem) (core.AVal, bool) {
		n := ev.Callee
		if !strings.HasPrefix(n, pAper+".") {
			return core.AVal{}, false
		}
		short := n[strings.LastIndexByte(n, '.')+1:]
		switch short {
		case "perTrace", "perBitLog", "perRawBitLog":
			return core.AVal{K: core.ATuple}, true
		case "putBitsValue", "parseAlignBits":
			return core.NilArg(), true
		case "appendAlignBits":
			return core.AVal{K: core.ATuple}, true
		case "getBitsValue":
			r := core.OpaqueRet(ev)
			if r.K == core.ATuple && len(r.Elems) == 2 {
				r.Elems[1] = core.NilArg()
			}
			return r, true
		case "appendConstraintValue", "parseConstraintValue":
			if short == self {
				return core.AVal{}, false
			}
			r := core.OpaqueRet(ev)
			if r.K == core.ATuple && len(r.Elems) == 2 {
				r.Elems[1] = core.NilArg()
				return r, true
			}
			return core.NilArg(), true
		}
		return core.AVal{}, false
	}
	outs, err := ex.Run(fn, args, nil)
	if err != nil {
		return nil, err
	}
	var cases []wireCase
	for _, o := range outs {
		wc := wireCase{lo: math.MinInt64, hi: math.MaxInt64}
		if f, ok := core.FactOf(o.SFacts, o.Facts, vr, 64); ok {
			wc.lo, wc.hi = f[0], f[1]
		}
		// refusal: the error result is known to be non-nil
		if n := len(o.Ret); n > 0 && o.Ret[n-1].NonNil && o.Ret[n-1].K == core.AUnknown {
			wc.op = "!"
		} else if o.Panicked {
			wc.op = "!panic"
		} else {
			var ops []string
			for i := range o.Trace {
				if s := opName(&o.Trace[i]); s != "" {
					ops = append(ops, s)
					if !whole {
						break
					}
				}
			}
			wc.op = strings.Join(ops, " ")
		}
		cases = append(cases, wc)
	}
	return cases, nil
}

// opAt returns the operations the cases prescribe for the value v ("?" when they disagree).
func opAt(cases []wireCase, v int64) string {
	got := map[string]bool{}
	for _, c := range cases {
		if c.lo <= v && v <= c.hi {
			got[c.op] = true
		}
	}
	var ks []string
	for k := range got {
		ks = append(ks, k)
	}
	sort.Strings(ks)
	return strings.Join(ks, " | ")
}

// agree compares two piecewise descriptions at every interval end point (and its neighbours).
func agree(a, b []wireCase, lo, hi int64) (bool, string) {
	pts := map[int64]bool{lo: true, hi: true}
	for _, cs := range [][]wireCase{a, b} {
		for _, c := range cs {
			for _, v := range []int64{c.lo, c.hi} {
				for _, d := range []int64{-1, 0, 1} {
					if (d < 0 && v == math.MinInt64) || (d > 0 && v == math.MaxInt64) {
						continue
					}
					if x := v + d; x >= lo && x <= hi {
						pts[x] = true
					}
				}
			}
		}
	}
	var xs []int64
	for v := range pts {
		xs = append(xs, v)
	}
	sort.Slice(xs, func(i, j int) bool { return xs[i] < xs[j] })
	for _, v := range xs {
		x, y := opAt(a, v), opAt(b, v)
		if x != y {
			return false, fmt.Sprintf("for a range of %d the encoder does [%s] and the decoder [%s]", v, x, y)
		}
		if strings.Contains(x, " | ") {
			return false, fmt.Sprintf("for a range of %d the operation depends on more than the range: %s", v, x)
		}
	}
	return true, fmt.Sprintf("%d boundary points compared", len(xs))
}

func r3agree(c *core.Ctx) (cvDecided, intDecided bool) {
	const R = "R3.agree"
	c.Rule(R, "encoder and decoder primitives start with the same wire operation (alignment, bit-field of the same width, constrained whole number of the same range) for every value range")
	// constrained whole number
	{
		enc, dec := mustFunc(c, pAper, "perRawBitData.appendConstraintValue"), mustFunc(c, pAper, "perBitData.parseConstraintValue")
		ea, da := core.DefaultArgs(enc), core.DefaultArgs(dec)
		ea[0], da[0] = core.NonNilArg(ea[0]), core.NonNilArg(da[0])
		ea[1] = core.ArgNamed("vr", enc.Params[1].Type())
		da[1] = core.ArgNamed("vr", dec.Params[1].Type())
		ec, err1 := wireCases(enc, ea, "vr", true)
		dc, err2 := wireCases(dec, da, "vr", true)
		if err1 != nil || err2 != nil {
			c.SoftUndecided("R3.agree: the constrained-whole-number primitives could not be evaluated (%v / %v)", err1, err2)
		} else {
			ok, why := agree(ec, dc, math.MinInt64, math.MaxInt64)
			cvDecided = true
			c.Check(ok, R, "aper:constraint-value", enc.Pos(), why, "appendConstraintValue and parseConstraintValue disagree: %s", why)
			// X.691 10.5.7: ranges 2..255 take the minimal bit-field, 256 one aligned octet, up to 64K two aligned octets
			spec := func(v int64) string {
				switch {
				case v < 0, v > 65536:
					return "!"
				case v <= 255:
					w := 1
					for (int64(1) << uint(w)) < v {
						w++
					}
					return fmt.Sprintf("bits(%d)", w)
				case v == 256:
					return "align bits(8)"
				}
				return "align bits(16)"
			}
			okS, bad := true, ""
			for _, v := range []int64{-1, 0, 1, 2, 3, 4, 5, 8, 9, 16, 17, 32, 33, 64, 65, 128, 129, 255, 256, 257, 65535, 65536, 65537} {
				if got := opAt(ec, v); got != spec(v) {
					okS, bad = false, fmt.Sprintf("range %d: encoder does [%s], X.691 10.5.7 asks for [%s]", v, got, spec(v))
				}
			}
			c.Check(okS, R, "aper:constraint-value:x691", enc.Pos(), "minimal bit-field up to 255, one aligned octet for 256, two up to 65536", "constrained whole number: %s", bad)
		}
	}
	// INTEGER: first field as a function of the value range (both bounds present, not extensible)
	{
		enc, dec := mustFunc(c, pAper, "perRawBitData.appendInteger"), mustFunc(c, pAper, "perBitData.parseInteger")
		if len(enc.Params) != 5 || len(dec.Params) != 4 {
			c.SoftUndecided("R3.agree: appendInteger/parseInteger do not have the expected parameters")
			return cvDecided, false
		}
		mk := func(fn *ssa.Function, extIdx, lbIdx, ubIdx int) []core.AVal {
			a := core.DefaultArgs(fn)
			a[0] = core.NonNilArg(a[0])
			a[extIdx] = core.AVal{K: core.AInt, Bits: core.ConstBits(0, 1)}
			a[lbIdx] = core.NonNilArg(core.AVal{K: core.APtr, Path: "lb"})
			a[ubIdx] = core.NonNilArg(core.AVal{K: core.APtr, Path: "ub"})
			return a
		}
		const vr = "(1+(ub-lb))"
		ec, err1 := wireCases(enc, mk(enc, 2, 3, 4), vr, false)
		dc, err2 := wireCases(dec, mk(dec, 1, 2, 3), vr, false)
		if err1 != nil || err2 != nil {
			c.SoftUndecided("R3.agree: the INTEGER primitives could not be evaluated (%v / %v)", err1, err2)
			return cvDecided, false
		}
		// the encoder also refuses values outside the bounds: those paths say nothing about the range
		var ec2 []wireCase
		for _, x := range ec {
			if x.op != "!" {
				ec2 = append(ec2, x)
			}
		}
		ok, why := agree(ec2, dc, 1, math.MaxInt64)
		intDecided = true
		// X.691 12.2.6 / 10.9: range 1 nothing; 2..64K a constrained whole number of that range; above, the length
		// (in octets, 1..octets(range-1)) as a constrained whole number, i.e. a bit-field of ceil(log2(octets)) bits
		specI := func(v int64) string {
			switch {
			case v == 1:
				return ""
			case v <= 65536:
				return "cv(" + vr + ")"
			}
			oct := 0
			for x := uint64(v - 1); x > 0; x >>= 8 {
				oct++
			}
			w := 1
			for (1 << uint(w)) < oct {
				w++
			}
			return fmt.Sprintf("bits(%d)", w)
		}
		okS, bad := true, ""
		for _, v := range []int64{1, 2, 255, 256, 65536, 65537, 1 << 24, 1<<24 + 1, 1 << 32, 1<<32 + 1, 1 << 40, 1<<40 + 1, 1 << 48, 1<<48 + 1, 1 << 56, 1<<56 + 1, math.MaxInt64} {
			if got := opAt(dc, v); got != specI(v) {
				okS, bad = false, fmt.Sprintf("range %d: decoder starts with [%s], X.691 12.2.6 asks for [%s]", v, got, specI(v))
			}
		}
		c.Check(okS, R, "aper:integer-first-field:x691", dec.Pos(), "nothing for range 1, constrained whole number up to 64K, ceil(log2(octets(range-1)))-bit length above", "constrained INTEGER: %s", bad)
		c.Check(ok, R, "aper:integer-first-field", enc.Pos(), why, "appendInteger and parseInteger disagree on the first field of a constrained INTEGER: %s", why)
	}
	return cvDecided, intDecided
}

// DumpWire prints the wire cases of the INTEGER primitives (developer aid).
func DumpWire(c *core.Ctx) {
	dec := mustFunc(c, pAper, "perBitData.parseInteger")
	a := core.DefaultArgs(dec)
	a[0] = core.NonNilArg(a[0])
	a[1] = core.AVal{K: core.AInt, Bits: core.ConstBits(0, 1)}
	a[2] = core.NonNilArg(core.AVal{K: core.APtr, Path: "lb"})
	a[3] = core.NonNilArg(core.AVal{K: core.APtr, Path: "ub"})
	cs, err := wireCases(dec, a, "(1+(ub-lb))", false)
	fmt.Println(err)
	for _, x := range cs {
		fmt.Printf("%d..%d %q\n", x.lo, x.hi, x.op)
	}
}

// parseLengthEval interprets perBitData.parseLength for an unconstrained length (sizeRange = -1):
// getBitsValue(n) is summarised as "the next n bits of the input" (a fresh source of n bits).
type plOutcome struct {
	o      core.AOutcome
	reads  []string // the sources read, in order
	isErr  bool
	repeat core.AVal
}

func parseLengthEval(c *core.Ctx) ([]plOutcome, bool) {
	fn := mustFunc(c, pAper, "perBitData.parseLength")
	if len(fn.Params) != 3 {
		return nil, false
	}
	ex := core.NewExec()
	ex.OnCall = func(ev *core.AEvent, m *core.AMem) (core.AVal, bool) {
		short := ev.Callee[strings.LastIndexByte(ev.Callee, '.')+1:]
		if !strings.HasPrefix(ev.Callee, pAper+".") {
			return core.AVal{}, false
		}
		switch short {
		case "perTrace", "perBitLog":
			return core.AVal{K: core.ATuple}, true
		case "parseAlignBits":
			return core.NilArg(), true
		case "getBitsValue":
			if len(ev.Args) == 2 {
				if n, ok := ev.Args[1].ConstVal(); ok && n <= 64 {
					return core.AVal{K: core.ATuple, Elems: []core.AVal{core.ArgBits(fmt.Sprintf("in%d", ev.Index), 64, int(n)), core.NilArg()}}, true
				}
			}
		}
		return core.AVal{}, false
	}
	args := core.DefaultArgs(fn)
	args[0] = core.NonNilArg(args[0])
	args[1] = core.AVal{K: core.AInt, Bits: core.ConstBits(^uint64(0), 64)} // sizeRange = -1: the general determinant
	args[2] = core.NonNilArg(core.AVal{K: core.APtr, Path: "repeat"})
	outs, err := ex.Run(fn, args, nil)
	if err != nil || len(ex.Unsound) > 0 {
		c.SoftUndecided("parseLength could not be evaluated (%v %v)", err, ex.Unsound)
		return nil, false
	}
	var res []plOutcome
	for _, o := range outs {
		if o.Panicked || len(o.Ret) != 2 {
			continue
		}
		r := plOutcome{o: o, isErr: o.Ret[1].NonNil && o.Ret[1].K == core.AUnknown}
		for _, ev := range o.Trace {
			if strings.HasSuffix(ev.Callee, ".getBitsValue") && ev.Ret.K == core.ATuple {
				r.reads = append(r.reads, core.ArgName(ev.Ret.Elems[0]))
			}
		}
		r.repeat = o.Mem.Load("repeat", nil)
		res = append(res, r)
	}
	return res, true
}

// factRange returns the range the path has established for the source (or field) name.
func factRange(o core.AOutcome, name string, width int) (uint64, uint64) {
	if f, ok := o.Facts[name]; ok {
		return f[0], f[1]
	}
	return 0, uint64(1)<<uint(width) - 1
}

// bitsUnderFacts replaces the bits the path has pinned (a one-bit field known to be 0 or 1) by constants.
func bitsUnderFacts(o core.AOutcome, v core.AVal) core.AVal {
	if v.K != core.AInt {
		return v
	}
	out := make(core.BitVec, len(v.Bits))
	for i, b := range v.Bits {
		out[i] = b
		if b.Kind == core.BSrc && b.More == "" && !b.Neg {
			if f, ok := o.Facts[fmt.Sprintf("%s<%d:%d>", b.Src, b.Idx, b.Idx)]; ok && f[0] == f[1] {
				if f[0] == 0 {
					out[i] = core.Bit{Kind: core.BZero}
				} else {
					out[i] = core.Bit{Kind: core.BOne}
				}
			}
		}
	}
	return core.AVal{K: core.AInt, Bits: out}
}

// feasibleOctets: the values 0..255 of the source src that satisfy every fact and exclusion the path
// has recorded about src or one of its bit fields.
func feasibleOctets(o core.AOutcome, src string) []uint64 {
	type fld struct {
		hi, lo int
		f      [2]uint64
	}
	var flds []fld
	for k, f := range o.Facts {
		if k == src {
			flds = append(flds, fld{63, 0, f})
			continue
		}
		if strings.HasPrefix(k, src+"<") && strings.HasSuffix(k, ">") {
			var h, l int
			if n, _ := fmt.Sscanf(k[len(src):], "<%d:%d>", &h, &l); n == 2 {
				flds = append(flds, fld{h, l, f})
			}
		}
	}
	// facts about a value derived from src by adding a constant (m := first - 192): folded per octet
	type lin struct {
		hi, lo int
		c      int64
		f      [2]uint64
	}
	var lins []lin
	for k, f := range o.Facts {
		if k == src || strings.HasPrefix(k, src+"<") {
			continue
		}
		cc, terms, okL := core.LinFormOfName(k, 64)
		if !okL || len(terms) != 1 {
			continue
		}
		for t, coef := range terms {
			if coef != 1 {
				continue
			}
			if t == src {
				lins = append(lins, lin{63, 0, cc, f})
			} else if strings.HasPrefix(t, src+"<") {
				var h, l int
				if n, _ := fmt.Sscanf(t[len(src):], "<%d:%d>", &h, &l); n == 2 {
					lins = append(lins, lin{h, l, cc, f})
				}
			}
		}
	}
	var out []uint64
	for v := uint64(0); v < 256; v++ {
		ok := true
		for _, ln := range lins {
			x := v >> uint(ln.lo)
			if w := ln.hi - ln.lo + 1; w < 64 {
				x &= uint64(1)<<uint(w) - 1
			}
			x += uint64(ln.c)
			if x < ln.f[0] || x > ln.f[1] {
				ok = false
			}
		}
		for _, f := range flds {
			x := v >> uint(f.lo)
			if w := f.hi - f.lo + 1; w < 64 {
				x &= uint64(1)<<uint(w) - 1
			}
			if x < f.f[0] || x > f.f[1] {
				ok = false
			}
		}
		for k, ex := range o.Excl {
			if k == src {
				for _, e := range ex {
					if uint64(e) == v {
						ok = false
					}
				}
			} else if strings.HasPrefix(k, src+"<") {
				var h, l int
				if n, _ := fmt.Sscanf(k[len(src):], "<%d:%d>", &h, &l); n == 2 {
					x := (v >> uint(l)) & (uint64(1)<<uint(h-l+1) - 1)
					for _, e := range ex {
						if uint64(e) == x {
							ok = false
						}
					}
				}
			}
		}
		if ok {
			out = append(out, v)
		}
	}
	return out
}

// pinBit replaces bit idx of source src in v by the constant the path has settled it to.
func pinBit(v core.AVal, src string, idx int, val uint64) core.AVal {
	if v.K != core.AInt {
		return v
	}
	out := make(core.BitVec, len(v.Bits))
	for i, b := range v.Bits {
		out[i] = b
		if b.Kind == core.BSrc && b.More == "" && !b.Neg && b.Src == src && b.Idx == idx {
			if val == 0 {
				out[i] = core.Bit{Kind: core.BZero}
			} else {
				out[i] = core.Bit{Kind: core.BOne}
			}
		}
	}
	return core.AVal{K: core.AInt, Bits: out}
}

// lengthValueIs folds the returned length for every first octet the path leaves possible (and every
// second octet, when one is read) and compares it with want: the octets are the whole input of the
// determinant, so this is the complete case split, whatever arithmetic spells the value.
func lengthValueIs(v core.AVal, first string, vals []uint64, second string, want func(a, b uint64) uint64) (bool, string) {
	if v.K != core.AInt {
		return false, "the length is " + v.String()
	}
	seconds := []uint64{0}
	if second != "" {
		seconds = nil
		for b := uint64(0); b < 256; b++ {
			seconds = append(seconds, b)
		}
	}
	for _, a := range vals {
		for _, b := range seconds {
			got, ok := core.EvalBits(v.Bits, func(src string) (uint64, bool) {
				switch src {
				case first:
					return a, true
				case second:
					return b, true
				}
				return 0, false
			})
			if !ok {
				return false, "the length " + clip(v.String()) + " does not fold on the octets read"
			}
			if w := want(a, b); got != w {
				return false, fmt.Sprintf("first octet %#02x%s: length %d, want %d (%s)", a, map[bool]string{true: fmt.Sprintf(", second %#02x", b), false: ""}[second != ""], got, w, clip(v.String()))
			}
		}
	}
	return true, ""
}

func r4lenX(c *core.Ctx) {
	const R = "R4.len"
	c.Rule(R, "parseLength accepts the X.691 10.9 forms: bit 8 clear → 7-bit value; bits 10 → 14-bit big-endian value over two octets; 11 → 1..4 fragments of 16384")
	fn := mustFunc(c, pAper, "perBitData.parseLength")
	outs, ok := parseLengthEval(c)
	if !ok {
		return
	}
	okShort, okLong, okFrag, okRange := false, false, false, true
	sawShort, sawLong, sawFrag := false, false, false
	detail := ""
	for _, r := range outs {
		if len(r.reads) == 0 {
			continue
		}
		first := r.reads[0]
		// which form is this path? the values of the first octet the path's facts leave possible say
		// which of the two top bits are settled (however the code tests them: masks, a shift, a range)
		vals := feasibleOctets(r.o, first)
		top := map[uint64]bool{}
		for _, x := range vals {
			top[x>>6] = true
		}
		b7lo, b7hi, b6lo, b6hi := uint64(1), uint64(0), uint64(1), uint64(0)
		for t := range top {
			if t>>1 < b7lo {
				b7lo = t >> 1
			}
			if t>>1 > b7hi {
				b7hi = t >> 1
			}
			if t&1 < b6lo {
				b6lo = t & 1
			}
			if t&1 > b6hi {
				b6hi = t & 1
			}
		}
		if len(vals) == 0 {
			continue // no octet takes this path
		}
		v := bitsUnderFacts(r.o, r.o.Ret[0])
		if b7lo == b7hi {
			v = pinBit(v, first, 7, b7lo)
		}
		if b7lo == 1 && b6lo == b6hi {
			v = pinBit(v, first, 6, b6lo)
		}
		switch {
		case b7hi == 0: // 0nnnnnnn
			if r.isErr {
				continue
			}
			sawShort = true
			okShort = v.K == core.AInt && v.Bits.IsCopy(6, 0, first, 0) && v.Bits.IsConst(len(v.Bits)-1, 7, 0) && len(r.reads) == 1
			if !okShort && len(r.reads) == 1 {
				var why string
				okShort, why = lengthValueIs(r.o.Ret[0], first, vals, "", func(a, _ uint64) uint64 { return a & 0x7f })
				if !okShort {
					detail = "short form: " + why
				}
			} else if !okShort {
				detail = "short form yields " + v.String()
			}
		case b7lo == 1 && b6hi == 0: // 10nnnnnn nnnnnnnn
			if r.isErr {
				continue
			}
			sawLong = true
			okLong = len(r.reads) == 2 && v.K == core.AInt && v.Bits.IsCopy(13, 8, first, 0) && v.Bits.IsCopy(7, 0, r.reads[1], 0) && v.Bits.IsConst(len(v.Bits)-1, 14, 0)
			if !okLong && len(r.reads) == 2 {
				var why string
				okLong, why = lengthValueIs(r.o.Ret[0], first, vals, r.reads[1], func(a, b uint64) uint64 { return (a&63)<<8 | b })
				if !okLong {
					detail = "long form: " + why
				}
			} else if !okLong {
				detail = "long form yields " + v.String()
			}
		case b7lo == 1 && b6lo == 1: // 11mmmmmm
			mlo, mhi := uint64(63), uint64(0)
			for _, x := range vals {
				if x&63 < mlo {
					mlo = x & 63
				}
				if x&63 > mhi {
					mhi = x & 63
				}
			}
			if r.isErr {
				// refusals must cover exactly m = 0 and m > 4
				if !(mhi == 0 || mlo >= 5) {
					okRange = false
					detail = fmt.Sprintf("a fragment count in [%d,%d] is refused", mlo, mhi)
				}
				continue
			}
			sawFrag = true
			okFrag = len(r.reads) == 1 && v.K == core.AInt && v.Bits.IsCopy(19, 14, first, 0) && v.Bits.IsConst(13, 0, 0) && v.Bits.IsConst(len(v.Bits)-1, 20, 0)
			if mlo < 1 || mhi > 4 {
				okRange = false
				detail = fmt.Sprintf("fragment counts in [%d,%d] are accepted", mlo, mhi)
			}
			if !okFrag && len(r.reads) == 1 {
				var why string
				okFrag, why = lengthValueIs(r.o.Ret[0], first, vals, "", func(a, _ uint64) uint64 { return (a & 63) * 16384 })
				if !okFrag {
					detail = "fragment form: " + why
				}
			} else if !okFrag {
				detail = "fragment form yields " + v.String()
			}
		}
	}
	c.Check(okShort && sawShort, R, "aper.parseLength:short-form", fn.Pos(), "0nnnnnnn → n", "a first octet with bit 8 clear must yield its low 7 bits (%s)", detail)
	c.Check(okLong && sawLong, R, "aper.parseLength:long-form", fn.Pos(), "10nnnnnn nnnnnnnn → 14-bit value", "a first octet 10nnnnnn must combine its low 6 bits (high part) with the next octet (low part) (%s)", detail)
	c.Check(okFrag && okRange && sawFrag, R, "aper.parseLength:fragment-form", fn.Pos(), "11mmmmmm → m*16384, m in 1..4", "a first octet 11mmmmmm must yield m*16384 fragments and reject m outside 1..4 (value ok %v, range check ok %v; %s)", okFrag, okRange, detail)
}

// r14repeatX: *repeat is true only together with a non-zero length (R14.loop, parseLength part).
func r14repeatX(c *core.Ctx, R string) {
	fn := mustFunc(c, pAper, "perBitData.parseLength")
	outs, ok := parseLengthEval(c)
	if !ok {
		return
	}
	okR, sawTrue := true, false
	why := ""
	for _, r := range outs {
		k, isK := r.repeat.ConstVal()
		if isK && k == 0 {
			continue
		}
		if !isK {
			okR, why = false, "*repeat is not a constant on some path: "+r.repeat.String()
			continue
		}
		sawTrue = true
		// length = m << 14 with the path's facts saying m >= 1
		v := r.o.Ret[0]
		if r.isErr || len(r.reads) == 0 || v.K != core.AInt {
			okR, why = false, "*repeat is set on a refusing path"
			continue
		}
		mlo, _ := factRange(r.o, r.reads[0]+"<5:0>", 6)
		if !(v.Bits.IsCopy(19, 14, r.reads[0], 0) && mlo >= 1) {
			// whatever arithmetic gives the length: folded for every first octet the path leaves possible
			vals := feasibleOctets(r.o, r.reads[0])
			okV := len(vals) > 0 && len(r.reads) == 1
			for _, a := range vals {
				got, okE := core.EvalBits(v.Bits, func(src string) (uint64, bool) { return a, src == r.reads[0] })
				if !okE || got == 0 {
					okV = false
				}
			}
			if !okV {
				okR, why = false, fmt.Sprintf("*repeat is set with length %s (fragment count at least %d)", v.String(), mlo)
			}
		}
	}
	c.Check(okR && sawTrue, R, "aper.parseLength:repeat-implies-progress", fn.Pos(), "*repeat = true only with length 16384*k (k checked to be 1..4)", "parseLength must set *repeat only when it returns a non-zero fragment length (otherwise the fragment loops spin on adversarial input): %s", why)
}
