package rules

import (
	"fmt"
	"go/token"
	"go/types"
	"math"
	"strings"

	"stgverif/internal/core"
)

// Evaluator-based SUCI / PLMN digit placement (DESIGN §11.7). EncodeSuci is interpreted for every
// IMSI length 6..15 with symbolic digits; hexCharToByte is summarised as "a value of at most 4 bits
// named after its argument" (R11.hex decides the 4 bits). The final Buffer is compared octet by
// octet with TS 24.501 9.11.3.4 — whatever helpers, loops or index arithmetic place the nibbles.

func hexDigit(arg string) core.BitVec { return core.ArgBits("hex("+arg+")", 8, 4).Bits }

// bcd builds the octet hi<<4 | lo from two digit vectors (hi nil: filler 1111).
func bcd(hi, lo core.BitVec) core.BitVec {
	out := make(core.BitVec, 8)
	for i := 0; i < 4; i++ {
		out[i] = lo[i]
		if hi == nil {
			out[4+i] = core.Bit{Kind: core.BOne}
		} else {
			out[4+i] = hi[i]
		}
	}
	return out
}

func r11suciX(c *core.Ctx) {
	const R, RH = "R11.nib", "R11.hdr"
	c.Rule(R, "EncodeSuci: nibble provenance of PLMN octets (both MNC lengths) and of the MSIN loop equals TS 24.501 9.11.3.4")
	c.Rule(RH, "EncodeSuci: header octets (SUPI format/type, routing indicator F0FF, scheme 0, key id 0) and Len = len(Buffer)")
	fn := mustFunc(c, pStg, "EncodeSuci")
	if len(fn.Params) != 2 {
		c.SoftUndecided("R11.nib: EncodeSuci does not have the (imsi, mncLen) signature")
		return
	}
	fmtSupi := mustConst(c, pNasM, "SupiFormatImsi")
	typ := mustConst(c, pNasM, "MobileIdentity5GSTypeSuci")
	c.Check(fmtSupi == 0 && typ == 1, RH, "nasMessage.SupiFormatImsi/TypeSuci", token.NoPos, "0 / 1", "SUPI format IMSI must be 0 and identity type SUCI 1 (TS 24.501 9.11.3.4), are %d / %d", fmtSupi, typ)
	type verdict struct {
		ok  bool
		bad string
	}
	res := map[string]*verdict{}
	note := func(key string, ok bool, bad string) {
		v := res[key]
		if v == nil {
			v = &verdict{ok: true}
			res[key] = v
		}
		if !ok && v.ok {
			v.ok, v.bad = false, bad
		}
	}
	seen3, seen2 := false, false
	for L := 6; L <= 15; L++ {
		ex := core.NewExec()
		ex.OnCall = func(ev *core.AEvent, _ *core.AMem) (core.AVal, bool) {
			if ev.Callee == pStg+".hexCharToByte" && len(ev.Args) == 1 {
				// a constant character folds to its digit value (the filler 'f')
				if k, isK := ev.Args[0].ConstVal(); isK && ev.Fn != nil {
					if v, ok := core.FoldCall(ev.Fn, []int64{int64(k)}); ok {
						return core.AVal{K: core.AInt, Bits: core.ConstBits(uint64(v), 8)}, true
					}
				}
				return core.AVal{K: core.AInt, Bits: hexDigit(core.ArgName(ev.Args[0]))}, true
			}
			return core.AVal{}, false
		}
		args := core.DefaultArgs(fn)
		args[0] = core.AVal{K: core.ASlice, Path: "p0", Lo: 0, Len: L, NonNil: true}
		outs, err := ex.Run(fn, args, nil)
		if err != nil || len(ex.Unsound) > 0 {
			c.SoftUndecided("R11.nib: EncodeSuci could not be evaluated for an IMSI of %d digits (%v %v)", L, err, ex.Unsound)
			return
		}
		for _, o := range outs {
			if o.Panicked {
				// a 2/3-digit split that leaves no MSIN digit is outside the domain (IMSI of 6 digits with a 3-digit MNC has an empty MSIN: allowed)
				continue
			}
			lo, hi := int64(math.MinInt64), int64(math.MaxInt64)
			if f, ok := o.SFacts["p1"]; ok {
				lo, hi = f[0], f[1]
			}
			has3, has2 := lo <= 3 && 3 <= hi, lo <= 2 && 2 <= hi
			for _, x := range o.Excl["p1"] {
				if x == 3 {
					has3 = false
				}
				if x == 2 {
					has2 = false
				}
			}
			if has3 == has2 {
				if has3 {
					note("mnc-length-branch", false, fmt.Sprintf("one path serves both a 2- and a 3-digit MNC (mncLen in [%d,%d])", lo, hi))
				}
				continue
			}
			d := 2
			side := "mnc2"
			if has3 {
				d, side = 3, "mnc3"
				seen3 = true
			} else {
				seen2 = true
			}
			if len(o.Ret) != 1 || o.Ret[0].K != core.APtr {
				note("header", false, "EncodeSuci does not return the identity it built")
				continue
			}
			obj := o.Ret[0].Path
			buf := o.Mem.Load(obj+".Buffer", nil)
			if buf.K != core.ASlice || buf.Lo != 0 || buf.Len < 0 {
				note("header", false, "the Buffer of the identity is not a slice of known length: "+core.ArgName(buf))
				continue
			}
			cell := func(i int) core.BitVec {
				// typed load: an octet of a made buffer that nothing wrote is zero
				v := o.Mem.Load(fmt.Sprintf("%s[%d]", buf.Path, i), types.Typ[types.Uint8])
				if v.K != core.AInt {
					return nil
				}
				return v.Bits
			}
			dig := func(i int) core.BitVec { return hexDigit(fmt.Sprintf("p0[%d]", i)) }
			same := func(i int, want core.BitVec) (bool, string) {
				got := cell(i)
				if core.SameVec(got, want) {
					return true, ""
				}
				return false, fmt.Sprintf("IMSI of %d digits, %d-digit MNC: octet %d is %s, want %s", L, d, i, got.Describe(), want.Describe())
			}
			msinStart := 3 + d
			nMsin := L - msinStart
			wantLen := 8 + (nMsin+1)/2
			if nMsin < 0 {
				continue
			}
			// header
			okH := buf.Len >= 8
			badH := ""
			if okH {
				for i, k := range map[int]uint64{0: uint64(fmtSupi<<4 | typ), 4: 0xf0, 5: 0xff, 6: 0, 7: 0} {
					if ok, bad := same(i, core.ConstBits(k, 8)); !ok {
						okH, badH = false, bad
					}
				}
			}
			note("header", okH, badH)
			if !okH {
				continue
			}
			ok1, bad1 := same(1, bcd(dig(1), dig(0)))
			note("common:octet1", ok1, bad1)
			if d == 3 {
				ok2, bad2 := same(2, bcd(dig(5), dig(2)))
				note(side+":octet2", ok2, bad2)
			} else {
				ok2, bad2 := same(2, bcd(nil, dig(2)))
				note(side+":octet2", ok2, bad2)
			}
			ok3, bad3 := same(3, bcd(dig(4), dig(3)))
			note(side+":octet3", ok3, bad3)
			// MSIN
			note("msin-start", buf.Len == wantLen, fmt.Sprintf("IMSI of %d digits, %d-digit MNC: the identity has %d octets, want %d (MSIN from digit %d)", L, d, buf.Len, wantLen, msinStart))
			if buf.Len != wantLen {
				continue
			}
			for k := 0; k < (nMsin+1)/2; k++ {
				a := msinStart + 2*k
				if a+1 < L {
					okP, badP := same(8+k, bcd(dig(a+1), dig(a)))
					note("msin-digit-pair", okP, badP)
				} else {
					okO, badO := same(8+k, bcd(nil, dig(a)))
					note("msin-last-odd-digit", okO, badO)
				}
			}
			ln := o.Mem.Load(obj+".Len", nil)
			k, isK := ln.ConstVal()
			note("len", isK && int(k) == wantLen, fmt.Sprintf("IMSI of %d digits: Len is %s, the Buffer has %d octets", L, ln, wantLen))
		}
	}
	pos := fn.Pos()
	get := func(k string) *verdict {
		if v := res[k]; v != nil {
			return v
		}
		return &verdict{ok: false, bad: "never established on any evaluated path"}
	}
	if !seen3 || !seen2 || !get("mnc-length-branch").ok && res["mnc-length-branch"] != nil {
		why := "no branch on the MNC length (mncLen > 2) selects between the 2- and 3-digit layouts"
		if v := res["mnc-length-branch"]; v != nil && !v.ok {
			why = v.bad
		}
		c.Fail(R, "stgutg.EncodeSuci:mnc-length-branch", pos, "%s", why)
		return
	}
	c.Ok(R, "stgutg.EncodeSuci:mnc-length-branch", pos, "3-digit layout iff mncLen > 2")
	hv := get("header")
	c.Check(hv.ok, RH, "stgutg.EncodeSuci:header", pos, "format|type, 3 PLMN octets, routing indicator F0 FF, scheme 0, key id 0", "the SUCI header must be format|type, 3 PLMN octets, routing indicator F0 FF, scheme 0, key id 0: %s", hv.bad)
	for _, k := range []struct{ key, okd string }{
		{"common:octet1", "MCC2<<4 | MCC1"}, {"mnc3:octet2", "MNC3<<4 | MCC3"}, {"mnc3:octet3", "MNC2<<4 | MNC1"},
		{"mnc2:octet2", "F<<4 | MCC3"}, {"mnc2:octet3", "MNC2<<4 | MNC1"},
		{"msin-start", "MSIN = imsi[5:] (2-digit MNC) / imsi[6:] (3-digit MNC)"},
		{"msin-digit-pair", "digit i+1 | digit i"}, {"msin-last-odd-digit", "F | digit i"},
	} {
		v := get(k.key)
		c.Check(v.ok, R, "stgutg.EncodeSuci:"+k.key, pos, k.okd, "EncodeSuci %s must be %s: %s", k.key, k.okd, v.bad)
	}
	lv := get("len")
	c.Check(lv.ok, RH, "stgutg.EncodeSuci:len", pos, "Len = len(Buffer) after the last append", "the identity's Len must be the final length of its Buffer: %s", lv.bad)
}

func r11sibX(c *core.Ctx) {
	const R = "R11.sib"
	c.Rule(R, "nasConvert.PlmnIDToNas places MCC/MNC digits like TS 24.501 (and hence like EncodeSuci): (MCC2|MCC1),(MNC3 or F|MCC3),(MNC2|MNC1)")
	fn := mustFunc(c, pNasC, "PlmnIDToNas")
	ex := core.NewExec()
	ex.MaxStates = 4000
	digit := func(name string) core.BitVec { return core.ArgBits("atoi("+name+")", 64, 4).Bits }
	ex.OnCall = func(ev *core.AEvent, _ *core.AMem) (core.AVal, bool) {
		if ev.Callee == "strconv.Atoi" && len(ev.Args) == 1 {
			return core.AVal{K: core.ATuple, Elems: []core.AVal{{K: core.AInt, Bits: digit(core.ArgName(ev.Args[0]))}, {K: core.AUnknown, Path: "atoierr:" + core.ArgName(ev.Args[0])}}}, true
		}
		if strings.HasPrefix(ev.Callee, "github.com/sirupsen/logrus.") {
			return core.AVal{K: core.ATuple}, true
		}
		return core.AVal{}, false
	}
	outs, err := ex.Run(fn, core.DefaultArgs(fn), nil)
	if err != nil || len(ex.Unsound) > 0 {
		c.SoftUndecided("R11.sib: PlmnIDToNas could not be evaluated (%v %v)", err, ex.Unsound)
		return
	}
	d := func(f string, i int) core.BitVec { return digit(fmt.Sprintf("chr(p0.%s[%d])", f, i))[:8] }
	seen := map[bool]bool{}
	wholeAtoi := false
	oks := map[string]bool{"octet0": true, "octet1": true, "octet2": true, "guard": true, "length": true}
	bad := map[string]string{}
	for _, o := range outs {
		if o.Panicked || len(o.Ret) != 1 {
			continue
		}
		// only the paths on which every digit parsed
		allParsed := true
		for n, isNil := range o.Nils {
			if strings.HasPrefix(n, "atoierr:") && !isNil {
				allParsed = false
			}
		}
		if !allParsed {
			continue
		}
		// the path pinned to len(Mnc) == 3 is the 3-digit one; every other path serves the other lengths
		three := false
		if f, ok := o.Facts["len(p0.Mnc)"]; ok {
			three = f[0] == 3 && f[1] == 3
		}
		seen[three] = true
		r := o.Ret[0]
		if r.K != core.ASlice || r.Lo != 0 || r.Len != 3 {
			oks["length"] = false
			bad["length"] = core.ArgName(r)
			continue
		}
		cell := func(i int) core.BitVec {
			v := o.Mem.Load(fmt.Sprintf("%s[%d]", r.Path, i), nil)
			if v.K != core.AInt {
				return nil
			}
			return v.Bits
		}
		want := [3]core.BitVec{bcd(d("Mcc", 1), d("Mcc", 0)), bcd(nil, d("Mcc", 2)), bcd(d("Mnc", 1), d("Mnc", 0))}
		if three {
			want[1] = bcd(d("Mnc", 2), d("Mcc", 2))
		}
		for i := 0; i < 3; i++ {
			if !core.SameVec(cell(i), want[i]) {
				if d := cell(i).Describe(); strings.Contains(d, "atoi(p0.Mcc)") || strings.Contains(d, "atoi(p0.Mnc)") {
					// digits taken arithmetically from the number the whole string converts to: equal to the
					// per-character digits only for decimal strings of the expected length, which this rule does
					// not establish - not decided (a layout choice by the numeric value instead of the length of
					// the MNC is wrong for MNCs with a leading zero, but that is beyond this comparison)
					wholeAtoi = true
				}
				k := fmt.Sprintf("octet%d", i)
				oks[k] = false
				bad[k] = fmt.Sprintf("%d-digit MNC: octet %d is %s, want %s", map[bool]int{true: 3, false: 2}[three], i, cell(i).Describe(), want[i].Describe())
			}
		}
	}
	if wholeAtoi {
		// which layout is used must still follow the number of MNC digits (a choice by the MNC's numeric
		// value packs 3-digit MNCs with a leading zero as 2-digit ones): that part does not need the digits
		c.Check(seen[true] && seen[false], R, "nasConvert.PlmnIDToNas:mnc3-guard", fn.Pos(), "MNC digit 3 used iff len(Mnc) == 3", "the third MNC digit must be used exactly when the MNC has three digits (filler F otherwise): no path of PlmnIDToNas is selected by len(Mnc) == 3")
		c.SoftUndecided("%s: PlmnIDToNas takes the digits arithmetically from the converted MCC/MNC numbers; digit placement is not decided in that form", R)
		return
	}
	if !seen[true] || !seen[false] {
		oks["guard"] = false
	}
	c.Check(oks["length"], R, "nasConvert.PlmnIDToNas:length", fn.Pos(), "3 octets", "the PLMN encoding must have 3 octets (%s)", bad["length"])
	for i, w := range []string{"MCC2<<4 | MCC1", "(MNC3 or F)<<4 | MCC3", "MNC2<<4 | MNC1"} {
		k := fmt.Sprintf("octet%d", i)
		c.Check(oks[k], R, "nasConvert.PlmnIDToNas:"+k, fn.Pos(), w, "octet %d must be %s: %s", i, w, bad[k])
	}
	c.Check(oks["guard"], R, "nasConvert.PlmnIDToNas:mnc3-guard", fn.Pos(), "MNC digit 3 used iff len(Mnc) == 3", "the third MNC digit must be used exactly when the MNC has three digits (filler F otherwise)")
}
