# Table read by genmanifest.py. claim(pid, technique, level text, level note, design ref)

claim("C19",
  "error-discipline dataflow on SSA: must-pass-through ManageError(own err) after every I/O/decode call; exit-status path check of ManageError",
  "Decides for every path of every driver function (main + stgutg, all reachable from main) that each SCTP read/write, NGAP decode and connect result is handed to ManageError before the next I/O, use of the co-result or return; that ManageError reaches os.Exit(non-zero constant) on every path of its err!=nil side; that nothing recovers a fault; and that no I/O procedure can follow the completion banner. That is the fail-stop argument for every fault index k at once, which a fault-injection run can only sample.",
  "Trusted: os.Exit/panic terminate the process with the given/non-zero status; the SCTP library reports a closed association as an error. Not decided: the wall-clock bound of a blocked Read, and that ngap.Decoder turns every undecodable input into an error (C14/C03).",
  "DESIGN.md §5 C19")
