#!/usr/bin/env python3
"""mkmeta.py : (re)build meta.json of every seeded/<id>/ that has README.md + confirm.json (round-3 seeds),
and refresh the 'detected_by' block of every seed from /tmp/seedmatrix.json if present."""
import json, os, re, sys
root='/verif/seeded'
det={}
if os.path.exists('/verif/seeded/catch_matrix.json'):
    det=json.load(open('/verif/seeded/catch_matrix.json'))
for sid in sorted(os.listdir(root)):
    d=os.path.join(root,sid)
    if not os.path.isdir(d): continue
    rd=os.path.join(d,'README.md'); cf=os.path.join(d,'confirm.json')
    mp=os.path.join(d,'meta.json')
    if os.path.exists(rd) and os.path.exists(cf):
        txt=open(rd).read()
        title=txt.strip().splitlines()[0].lstrip('# ').strip()
        title=re.sub(r'^C\d\d-\d+:\s*','',title)
        title=re.sub(r'^(Seed|SEED)\s*\d+\s*[:\-—]\s*','',title)
        secs=re.split(r'\n##+\s*',txt)
        def sec(*names):
            for s in secs[1:]:
                head=s.splitlines()[0].lower()
                if any(n in head for n in names):
                    return '\n'.join(s.splitlines()[1:]).strip()
            return ''
        files=re.findall(r'^(?:\+\+\+ b/)(\S+)', open(os.path.join(d,'patch.diff')).read(), re.M)
        meta={"id":sid,"property":sid.split('-')[0],"title":title,
              "breaks":sec('clause','breaks','broken','what is broken','property') or txt[:1500],
              "needs":sec('needed','needs','manifest','trigger'),
              "files_changed":sorted(set(files)),
              "demo":"demo/"+", demo/".join(sorted(os.listdir(os.path.join(d,'demo'))))+" (run through run_demo.sh <tree-root>)",
              "author":"independent sub-agent (round 3) given only the property text and a scratch worktree of /repo at cae6a40",
              "confirmed":json.load(open(cf))}
    elif os.path.exists(mp):
        meta=json.load(open(mp))
    else:
        continue
    if sid in det: meta['detected_by']=det[sid]
    json.dump(meta,open(mp,'w'),indent=1)
print('ok')
