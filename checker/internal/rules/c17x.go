package rules

import (
	"fmt"
	"strings"

	"golang.org/x/tools/go/ssa"

	"stgverif/internal/core"
)

// Evaluator-based identifier conversion rules (DESIGN §11.8). net.ParseIP / To4 / To16 / IPv4 /
// IP.String are summarised as named values of the right length; everything the conversion code
// itself does (which octets go where, which bit length is announced) is read off the result.

func netSummaries(ev *core.AEvent, m *core.AMem) (core.AVal, bool) {
	name := func(v core.AVal) string {
		if v.K == core.ASlice && v.Lo == 0 && (strings.HasPrefix(v.Path, "ip(") || strings.HasPrefix(v.Path, "to4(") || strings.HasPrefix(v.Path, "to16(") || strings.HasPrefix(v.Path, "ipv4(")) {
			return v.Path // a value of the net package, whole
		}
		if v.K == core.ASlice && v.Lo >= 0 && v.Len >= 0 {
			return strings.Join(sliceContent(m, v), ",")
		}
		return core.ArgName(v)
	}
	an := func(v core.AVal) string {
		if v.K == core.ASlice && v.Lo == 0 {
			return v.Path
		}
		return core.ArgName(v)
	}
	mk := func(path string, n int) core.AVal {
		return core.AVal{K: core.ASlice, Path: path, Lo: 0, Len: n, NonNil: true}
	}
	switch ev.Callee {
	case "net.ParseIP":
		if len(ev.Args) == 1 {
			return mk("ip("+core.ArgName(ev.Args[0])+")", 16), true
		}
	case "net.IP.To4":
		if len(ev.Args) == 1 {
			return mk("to4("+an(ev.Args[0])+")", 4), true
		}
	case "net.IP.To16":
		if len(ev.Args) == 1 {
			return mk("to16("+an(ev.Args[0])+")", 16), true
		}
	case "net.IPv4":
		if len(ev.Args) == 4 {
			var as []string
			for _, a := range ev.Args {
				as = append(as, core.ArgName(a))
			}
			return mk("ipv4("+strings.Join(as, ",")+")", 16), true
		}
	case "net.IP.String":
		if len(ev.Args) == 1 {
			return core.AVal{K: core.AStr, Path: "str(" + name(ev.Args[0]) + ")", Lo: 0, Len: -1}, true
		}
	}
	if strings.HasPrefix(ev.Callee, "github.com/sirupsen/logrus.") {
		return core.AVal{K: core.ATuple}, true
	}
	return core.AVal{}, false
}

// bitStringOf digs the BitString (Bytes, BitLength) out of a TransportLayerAddress value.
func bitStringOf(v core.AVal) (core.AVal, core.AVal, bool) {
	if v.K != core.AAgg || len(v.Elems) != 1 {
		return core.AVal{}, core.AVal{}, false
	}
	bs := v.Elems[0]
	if bs.K != core.AAgg || len(bs.Elems) != 2 {
		return core.AVal{}, core.AVal{}, false
	}
	return bs.Elems[0], bs.Elems[1], true
}

func r17ipX(c *core.Ctx) {
	const R = "R17.ip"
	c.Rule(R, "IPAddressToNgap: 32/128/160 bits with 4/16/20 octets, IPv4 first; IPAddressToString: same three cases, in-range indexing, IPv6 part from octet 4")
	// ---- text → NGAP
	g := mustFunc(c, pNgapC, "IPAddressToNgap")
	{
		ex := core.NewExec()
		ex.OnCall = netSummaries
		outs, err := ex.Run(g, core.DefaultArgs(g), nil)
		if err != nil || len(ex.Unsound) > 0 {
			c.SoftUndecided("R17.ip: IPAddressToNgap could not be evaluated (%v %v)", err, ex.Unsound)
		} else {
			seen := map[int64]bool{}
			for _, o := range outs {
				if o.Panicked || len(o.Ret) != 1 {
					continue
				}
				e4, k4 := o.Nils["empty:p0"]
				e6, k6 := o.Nils["empty:p1"]
				bytes, bl, ok := bitStringOf(o.Ret[0])
				if !ok {
					c.SoftUndecided("R17.ip: IPAddressToNgap does not return a TransportLayerAddress value the evaluator can take apart")
					break
				}
				n, isK := bl.ConstVal()
				bits := int64(n)
				if !isK {
					bits = -1
				}
				content := sliceContent(o.Mem, bytes)
				if bytes.K == core.ANil {
					content = nil
				}
				var want []string
				wantBits := int64(0)
				has4, has6 := k4 && !e4, k6 && !e6
				if !k4 || !k6 {
					// a path that did not look at both strings: it must not build an address from the one it ignored
					if bits > 0 {
						c.Fail(R, fmt.Sprintf("ngapConvert.IPAddressToNgap:%d-bit", bits), g.Pos(), "a %d-bit address is produced on a path that does not test both address strings for emptiness", bits)
					}
					continue
				}
				if has4 {
					for i := 0; i < 4; i++ {
						want = append(want, fmt.Sprintf("to4(ip(p0))[%d]", i))
					}
					wantBits += 32
				}
				if has6 {
					for i := 0; i < 16; i++ {
						want = append(want, fmt.Sprintf("to16(ip(p1))[%d]", i))
					}
					wantBits += 128
				}
				key := fmt.Sprintf("ngapConvert.IPAddressToNgap:%d-bit", wantBits)
				if wantBits == 0 {
					c.Check(bits == 0 && len(content) == 0, R, "ngapConvert.IPAddressToNgap:empty", g.Pos(), "no address → zero value", "without any address the zero value must be returned; returns %d bits, octets %v", bits, content)
					continue
				}
				seen[wantBits] = true
				desc := map[int64]string{32: "4 octets of the IPv4 address", 128: "16 IPv6 octets", 160: "4 IPv4 octets then 16 IPv6 octets"}[wantBits]
				c.Check(bits == wantBits && strings.Join(content, ",") == strings.Join(want, ","), R, key, g.Pos(), desc,
					"a %d-bit address (TS 38.414) must carry %s with BitLength %d; carries BitLength %d and octets %s", wantBits, desc, wantBits, bits, clip(strings.Join(content, ",")))
			}
			c.Check(seen[32] && seen[128] && seen[160], R, "ngapConvert.IPAddressToNgap:forms", g.Pos(), "32 / 128 / 160", "IPAddressToNgap must produce the three forms 32, 128 and 160 bits; produces %v", seen)
		}
	}
	// ---- NGAP → text: one run per legal (bit length, octet count)
	fn := mustFunc(c, pNgapC, "IPAddressToString")
	cases := map[int64]bool{}
	for _, t := range []struct {
		bits int64
		n    int
	}{{32, 4}, {128, 16}, {160, 20}} {
		ex := core.NewExec()
		ex.OnCall = netSummaries
		arg := core.AVal{K: core.AAgg, Elems: []core.AVal{{K: core.AAgg, Elems: []core.AVal{
			{K: core.ASlice, Path: "B", Lo: 0, Len: t.n, NonNil: true},
			{K: core.AInt, Bits: core.ConstBits(uint64(t.bits), 64)}}}}}
		outs, err := ex.Run(fn, []core.AVal{arg}, nil)
		key := fmt.Sprintf("ngapConvert.IPAddressToString:%d-bit", t.bits)
		if err != nil || len(outs) != 1 || len(ex.Unsound) > 0 {
			c.SoftUndecided("R17.ip: IPAddressToString could not be evaluated for a %d-bit address (%v, %d outcomes, %v)", t.bits, err, len(outs), ex.Unsound)
			continue
		}
		o := outs[0]
		if o.Panicked {
			c.Fail(R, key, fn.Pos(), "a %d-bit address of %d octets makes IPAddressToString index past the end of its octets (panic)", t.bits, t.n)
			continue
		}
		if len(o.Ret) != 2 {
			continue
		}
		cases[t.bits] = true
		octs := func(lo, hi int) string {
			var s []string
			for i := lo; i < hi; i++ {
				s = append(s, fmt.Sprintf("B[%d]", i))
			}
			return strings.Join(s, ",")
		}
		v4, v6 := core.ArgName(o.Ret[0]), core.ArgName(o.Ret[1])
		want4, want6 := `""`, `""`
		if t.bits != 128 {
			want4 = "str(ipv4(B[0],B[1],B[2],B[3]))"
		}
		if t.bits == 128 {
			want6 = "str(" + octs(0, 16) + ")"
		}
		if t.bits == 160 {
			want6 = "str(" + octs(4, 20) + ")"
		}
		norm := func(s string) string { // a string of the whole input object is the string of its octets
			if s == "str(B)" {
				return "str(" + octs(0, t.n) + ")"
			}
			if strings.HasPrefix(s, "str(B[") && strings.HasSuffix(s, ":])") {
				var k int
				fmt.Sscanf(s, "str(B[%d:])", &k)
				return "str(" + octs(k, t.n) + ")"
			}
			return s
		}
		v4, v6 = norm(v4), norm(v6)
		if t.bits == 160 {
			c.Check(v6 == want6, R, "ngapConvert.IPAddressToString:dual-stack-ipv6-part", fn.Pos(), "IPv6 = octets 4..len-1", "in the 160-bit case the IPv6 address must be octets 4..19 (the IPv4 address occupies octets 0..3); it is built from %s", clip(v6))
		}
		c.Check(v4 == want4 && v6 == want6, R, key, fn.Pos(), fmt.Sprintf("ipv4=%s ipv6=%s", want4, clip(want6)), "a %d-bit address must be printed as ipv4=%s ipv6=%s; is ipv4=%s ipv6=%s", t.bits, want4, clip(want6), clip(v4), clip(v6))
	}
	c.Check(len(cases) == 3, R, "ngapConvert.IPAddressToString:cases", fn.Pos(), "32 / 128 / 160", "IPAddressToString must handle exactly the bit lengths 32, 128 and 160 (TS 38.414); handled: %v", cases)
}

// r13ipX: IPAddressToNgap(ipv4, "") is the four octets of the address with bit length 32 (C13's clause).
func r13ipX(c *core.Ctx, R string) {
	g := mustFunc(c, pNgapC, "IPAddressToNgap")
	ex := core.NewExec()
	ex.OnCall = netSummaries
	args := core.DefaultArgs(g)
	args[1] = core.AVal{K: core.AStr, IsConst: true, Const: "", Len: 0}
	outs, err := ex.Run(g, args, nil)
	if err != nil || len(ex.Unsound) > 0 {
		c.SoftUndecided("%s: IPAddressToNgap could not be evaluated (%v %v)", R, err, ex.Unsound)
		return
	}
	found, detail := false, "no path for a non-empty IPv4 string"
	for _, o := range outs {
		if e4, k4 := o.Nils["empty:p0"]; !k4 || e4 || o.Panicked || len(o.Ret) != 1 {
			continue
		}
		bytes, bl, ok := bitStringOf(o.Ret[0])
		if !ok {
			continue
		}
		n, isK := bl.ConstVal()
		content := strings.Join(sliceContent(o.Mem, bytes), ",")
		found = isK && n == 32 && content == "to4(ip(p0))[0],to4(ip(p0))[1],to4(ip(p0))[2],to4(ip(p0))[3]"
		detail = fmt.Sprintf("BitLength %d, octets %s", n, clip(content))
	}
	c.Check(found, R, "ngapConvert.IPAddressToNgap:ipv4-only", g.Pos(), "Bytes = ParseIP(ipv4).To4()[0..3], BitLength 32 when ipv6Addr == \"\"", "IPAddressToNgap(ipv4, \"\") must yield exactly the four octets of the address with bit length 32: %s", detail)
}

var _ *ssa.Function
