package aper

import (
	"bytes"
	"testing"
)

type statusBitmap struct {
	Value BitString `aper:"sizeLB:1,sizeUB:131072"` // DRBStatusUL18.receiveStatusOfULPDCPSDUs
}
type bigOctets struct {
	Value OctetString `aper:"sizeLB:1,sizeUB:100000"`
}

// F24: a string whose size constraint has ub >= 64K takes the general length
// determinant of X.691 10.9.3.5-10.9.3.8, which carries the count n itself, not
// n - lb (n - lb is the constrained-whole-number form of 10.9.3.3, ub < 64K only).
func TestF24(t *testing.T) {
	bits := BitString{Bytes: []byte{0xde, 0xad, 0xbe, 0xef, 0x55}, BitLength: 40}
	got, err := Marshal(statusBitmap{Value: bits})
	want := append([]byte{40}, bits.Bytes...)
	if err != nil || !bytes.Equal(got, want) {
		t.Errorf("BIT STRING SIZE(1..131072) of 40 bits encodes to %x (%v), X.691: %x", got, err, want)
	}
	// a conformant encoding is decoded to the value it denotes
	var back statusBitmap
	if err := Unmarshal(want, &back); err != nil || back.Value.BitLength != 40 || !bytes.Equal(back.Value.Bytes, bits.Bytes) {
		t.Errorf("conformant encoding %x decodes to %d bits %x (%v)", want, back.Value.BitLength, back.Value.Bytes, err)
	}
	oct := OctetString{1, 2, 3}
	got, err = Marshal(bigOctets{Value: oct})
	want = []byte{3, 1, 2, 3}
	if err != nil || !bytes.Equal(got, want) {
		t.Errorf("OCTET STRING SIZE(1..100000) of 3 octets encodes to %x (%v), X.691: %x", got, err, want)
	}
	var ob bigOctets
	if err := Unmarshal(want, &ob); err != nil || !bytes.Equal(ob.Value, oct) {
		t.Errorf("conformant encoding %x decodes to %x (%v)", want, []byte(ob.Value), err)
	}
}
