package rules

import (
	"fmt"
	"os"
	"strings"

	"golang.org/x/tools/go/ssa"

	"stgverif/internal/core"
)

// NIA1 on one symbolic iteration of its block loop (DESIGN §11.16): the GF(2^64) multiplication
// (decided by R7.gf64) and the keystream generator (R7.*) are summarised; what is read off is how
// the evaluation polynomial is folded and what is emitted as MAC - whatever buffers, helper
// variables or byte-order routines the function uses.

func loopBoundConst(h *ssa.BasicBlock) bool {
	iff, ok := h.Instrs[len(h.Instrs)-1].(*ssa.If)
	if !ok {
		return false
	}
	bo, ok := iff.Cond.(*ssa.BinOp)
	if !ok {
		return false
	}
	_, xk := bo.X.(*ssa.Const)
	_, yk := bo.Y.(*ssa.Const)
	return xk || yk
}

func nia1Eval(fn *ssa.Function) (*core.Exec, []core.AOutcome, error) {
	ex := core.NewExec()
	ex.MaxStates = 512
	ex.SymLoop = func(f *ssa.Function, h *ssa.BasicBlock) bool { return fnPkgPath(f) == pSec && !loopBoundConst(h) }
	ex.OnCall = func(ev *core.AEvent, m *core.AMem) (core.AVal, bool) {
		switch {
		case ev.Callee == pSnow+".InitSnow3g":
			return core.AVal{K: core.ATuple}, true
		case ev.Callee == pSnow+".GenerateKeystream":
			if len(ev.Args) == 2 && ev.Args[1].K == core.ASlice && ev.Args[1].Lo >= 0 {
				if n, isK := ev.Args[0].ConstVal(); isK && n <= 16 {
					for i := 0; i < int(n); i++ {
						m.Store(fmt.Sprintf("%s[%d]", ev.Args[1].Path, ev.Args[1].Lo+i), core.ArgBits(fmt.Sprintf("z[%d]", i), 32, 32), nil)
					}
				}
			}
			return core.AVal{K: core.ATuple}, true
		case ev.Callee == pSec+".mul":
			return core.OpaqueRet(ev), true
		case strings.HasPrefix(ev.Callee, "fmt."), strings.HasPrefix(ev.Callee, "log."):
			return core.OpaqueRet(ev), true
		}
		return core.AVal{}, false
	}
	outs, err := ex.Run(fn, core.DefaultArgs(fn), nil)
	return ex, outs, err
}

// r7nia1X decides security.NIA1:P-Q and security.NIA1:mac; false: model not usable.
func r7nia1X(c *core.Ctx, R string, fn *ssa.Function) bool {
	ex, outs, err := nia1Eval(fn)
	if err != nil || len(ex.Unsound) > 0 || len(ex.Iters) == 0 {
		c.Note("R7.iv: symbolic-iteration model of NIA1 not used (%v %v, %d iteration paths)", err, ex.Unsound, len(ex.Iters))
		return false
	}
	mulName := "call:" + pSec + ".mul("
	P := "{[63:32]=z[0][31:0] [31:0]=z[1][31:0]}"
	Q := "{[63:32]=z[2][31:0] [31:0]=z[3][31:0]}"
	if os.Getenv("VERIF_DEBUG") != "" {
		for _, it := range ex.Iters {
			for k, v := range it.Next {
				fmt.Printf("DEBUG nia1 iter %s: sym %s next %s\n", k, nm(it.Sym[k]), clip(nm(v)))
			}
		}
		for _, o := range outs {
			if len(o.Ret) > 0 {
				fmt.Printf("DEBUG nia1 out ret0=%s cells=%v\n", nm(o.Ret[0]), func() []string {
					var cs []string
					if o.Ret[0].K == core.ASlice {
						for i := 0; i < 4; i++ {
							cs = append(cs, clip(nm(o.Mem.Load(fmt.Sprintf("%s[%d]", o.Ret[0].Path, o.Ret[0].Lo+i), nil))))
						}
					}
					return cs
				}())
			}
		}
	}
	bitTerms := func(b core.Bit) []string {
		if b.Kind != core.BSrc {
			return nil
		}
		ts := []string{fmt.Sprintf("%s.%d", b.Src, b.Idx)}
		if b.More != "" {
			ts = append(ts, strings.Split(b.More, "^")...)
		}
		return ts
	}
	// splitCall: "call:…mul(a,b,c)" -> a, b, c (top-level commas)
	splitCall := func(name string) []string {
		if !strings.HasPrefix(name, mulName) || !strings.HasSuffix(name, ")") {
			return nil
		}
		in := name[len(mulName) : len(name)-1]
		var out []string
		depth, start := 0, 0
		for i := 0; i < len(in); i++ {
			switch in[i] {
			case '(', '[', '{':
				depth++
			case ')', ']', '}':
				depth--
			case ',':
				if depth == 0 {
					out = append(out, in[start:i])
					start = i + 1
				}
			}
		}
		return append(out, in[start:])
	}
	// (1) the Horner step of the block loop: Eval := mul(Eval ^ M_i, P, 0x1b), M_i the big-endian word of 8 message octets
	okStep, why := true, ""
	nStep := 0
	for _, it := range ex.Iters {
		var evalVar string
		for k, v := range it.Next {
			if strings.HasPrefix(nm(v), mulName) {
				evalVar = k
			}
		}
		if evalVar == "" {
			okStep, why = false, "a way round the block loop does not multiply the evaluation value"
			continue
		}
		nStep++
		sym := nm(it.Sym[evalVar])
		args := splitCall(nm(it.Next[evalVar]))
		if len(args) != 3 || args[1] != P || args[2] != "27" {
			okStep, why = false, "the block loop multiplies by "+clip(strings.Join(args[1:], ", "))
			continue
		}
		// the first operand, as bits: recover it from the recorded call
		var a core.BitVec
		for i := range it.Trace {
			if it.Trace[i].Callee == pSec+".mul" && len(it.Trace[i].Args) == 3 {
				a = it.Trace[i].Args[0].Bits
			}
		}
		if len(a) != 64 {
			okStep, why = false, "the multiplicand of the block loop is not a 64-bit value"
			continue
		}
		mixed := false
		for _, x := range a {
			if x.Kind == core.BMix {
				mixed = true
			}
		}
		if mixed {
			continue // a block assembled through a zero-padded scratch buffer: which octets it holds is R7.nia1-blocks' business
		}
		cells := map[int]string{}
		for b := 0; b < 64 && okStep; b++ {
			ts := bitTerms(a[b])
			var cell string
			hasEval := false
			for _, t := range ts {
				switch {
				case t == fmt.Sprintf("%s.%d", sym, b):
					hasEval = true
				case strings.HasPrefix(t, "p4[") && strings.HasSuffix(t, fmt.Sprintf("].%d", b%8)):
					cell = t[:strings.LastIndexByte(t, '.')]
				}
			}
			k := 7 - b/8
			if len(ts) != 2 || !hasEval || cell == "" || (cells[k] != "" && cells[k] != cell) {
				okStep, why = false, fmt.Sprintf("bit %d of the multiplicand is %v, want Eval.%d xor bit %d of message octet 8i+%d", b, ts, b, b%8, k)
			}
			cells[k] = cell
		}
		seen := map[string]bool{}
		for _, cl := range cells {
			if seen[cl] {
				okStep, why = false, "two octets of the block are the same message octet"
			}
			seen[cl] = true
		}
	}
	// (2) the MAC: high half of mul(mul(…, P) ^ LENGTH, Q) xor z5, big endian
	okMac, whyMac := false, "no way out of NIA1 returns a 4-octet MAC"
	for _, o := range outs {
		if o.Panicked || len(o.Ret) < 1 || o.Ret[0].K != core.ASlice || o.Ret[0].Lo < 0 {
			continue
		}
		okMac, whyMac = true, ""
		outer := ""
		for k := 0; k < 4 && okMac; k++ {
			cell := o.Mem.Load(fmt.Sprintf("%s[%d]", o.Ret[0].Path, o.Ret[0].Lo+k), nil)
			if cell.K != core.AInt || len(cell.Bits) != 8 {
				okMac, whyMac = false, "MAC octet "+fmt.Sprint(k)+" is "+clip(nm(cell))
				break
			}
			for j := 0; j < 8; j++ {
				ts := bitTerms(cell.Bits[j])
				pos := 8*(3-k) + j
				okZ, m := false, ""
				for _, t := range ts {
					if t == fmt.Sprintf("z[4].%d", pos) {
						okZ = true
					} else if strings.HasPrefix(t, mulName) && strings.HasSuffix(t, fmt.Sprintf(".%d", 32+pos)) {
						m = t[:strings.LastIndexByte(t, '.')]
					}
				}
				if len(ts) != 2 || !okZ || m == "" || (outer != "" && outer != m) {
					okMac, whyMac = false, fmt.Sprintf("bit %d of MAC octet %d is %v, want bit %d of the final product xor bit %d of z5", j, k, ts, 32+pos, pos)
					break
				}
				outer = m
			}
		}
		if okMac {
			// which products: (… * P xor LENGTH) * Q — part of the P-Q obligation
			args := splitCall(outer)
			inner := ""
			if len(args) == 3 && strings.HasPrefix(args[0], "(") && strings.HasSuffix(args[0], ")") {
				x := strings.TrimSuffix(strings.TrimPrefix(args[0], "("), ")")
				switch {
				case strings.HasSuffix(x, "⊕p5"):
					inner = strings.TrimSuffix(x, "⊕p5")
				case strings.HasPrefix(x, "p5⊕"):
					inner = strings.TrimPrefix(x, "p5⊕")
				}
			}
			ia := splitCall(inner)
			innerOK := (len(ia) == 3 && ia[1] == P && ia[2] == "27") || strings.HasPrefix(inner, "φ") // the value the block loop leaves
			if len(args) != 3 || args[1] != Q || args[2] != "27" || !innerOK {
				okStep, why = false, "the final product is "+clip(outer)
			}
		}
		break
	}
	c.Check(okStep && nStep > 0, R, "security.NIA1:P-Q", fn.Pos(), "Eval := (Eval xor M_i) * P in every round of the block loop, the last block too; then (Eval xor LENGTH) * Q, polynomial 0x1B",
		"EIA1 must multiply by P=z1||z2 (message blocks) and by Q=z3||z4 (after adding LENGTH) modulo x^64+x^4+x^3+x+1: %s %s", why, whyMac)
	c.Check(okMac, R, "security.NIA1:mac", fn.Pos(), "MAC-I = high 32 bits of ((EVAL ^ LENGTH) * Q) ^ z5, most significant octet first", "EIA1 MAC must be the high half of ((EVAL^LENGTH)*Q) xor z5: %s", whyMac)
	return true
}