package rules

import (
	"fmt"
	"go/ast"
	"go/types"
	"strings"

	"stgverif/internal/core"
)

// R0.swap: an argument-selection check for the emulator's own packages. Where a call hands two
// plain variables (or fields) to two parameters of the same type and each variable is named like
// the *other* parameter — DeriveOPc(k, op) called as DeriveOPc(OP, K) — the values reach the
// wrong roles; the compiler cannot see it (same types) and the defect stays invisible with
// configurations where the two values coincide. Only exact cross-matches (case and underscores
// ignored) are reported, so a call that merely uses other names is never flagged.
func r0swap(c *core.Ctx) {
	if !c.Once("r0swap") {
		return
	}
	const R = "R0.swap"
	c.Rule(R, "no call in main/stgutg/tglib passes two same-typed variables each named after the other's parameter (swapped arguments)")
	// names are compared without case, underscores and a trailing representation word: opBytes / kHex /
	// mncStr stand for op / k / mnc
	norm := func(s string) string {
		s = strings.ToLower(strings.ReplaceAll(s, "_", ""))
		for _, suf := range []string{"bytes", "byte", "hex", "str", "string", "value", "val", "buf", "raw", "octets"} {
			if len(s) > len(suf) && strings.HasSuffix(s, suf) {
				return strings.TrimSuffix(s, suf)
			}
		}
		return s
	}
	argName := func(e ast.Expr) string {
		switch x := e.(type) {
		case *ast.Ident:
			return x.Name
		case *ast.SelectorExpr:
			return x.Sel.Name
		}
		return ""
	}
	n := 0
	for _, pp := range []string{pMain, pStg, pTglib} {
		pkg := c.P.Pkg(pp)
		if pkg == nil || pkg.TypesInfo == nil {
			continue
		}
		for _, file := range pkg.Syntax {
			ast.Inspect(file, func(nd ast.Node) bool {
				call, ok := nd.(*ast.CallExpr)
				if !ok {
					return true
				}
				var fn *types.Func
				switch f := call.Fun.(type) {
				case *ast.Ident:
					fn, _ = pkg.TypesInfo.Uses[f].(*types.Func)
				case *ast.SelectorExpr:
					fn, _ = pkg.TypesInfo.Uses[f.Sel].(*types.Func)
				}
				if fn == nil {
					return true
				}
				sig, ok := fn.Type().(*types.Signature)
				if !ok || sig.Variadic() || sig.Params().Len() != len(call.Args) || len(call.Args) < 2 {
					return true
				}
				n++
				for i := 0; i < len(call.Args); i++ {
					for j := i + 1; j < len(call.Args); j++ {
						ai, aj := norm(argName(call.Args[i])), norm(argName(call.Args[j]))
						pi, pj := norm(sig.Params().At(i).Name()), norm(sig.Params().At(j).Name())
						if ai == "" || aj == "" || pi == "" || pj == "" || ai == aj {
							continue
						}
						if ai == pj && aj == pi && types.Identical(sig.Params().At(i).Type(), sig.Params().At(j).Type()) {
							c.Fail(R, fmt.Sprintf("%s:%s(%s,%s)", shortName(pp), fn.Name(), argName(call.Args[i]), argName(call.Args[j])), call.Pos(),
								"%s is declared with parameters (…%s, …%s…) and called with (…%s, …%s…): arguments %d and %d are each named after the other's parameter and have the same type — they are swapped",
								fn.Name(), sig.Params().At(i).Name(), sig.Params().At(j).Name(), argName(call.Args[i]), argName(call.Args[j]), i+1, j+1)
						}
					}
				}
				return true
			})
		}
	}
	c.Sites(n)
	if n > 0 {
		c.Ok(R, "emulator-packages:calls", 0, fmt.Sprintf("%d calls with two or more arguments examined", n))
	}
	c.Floor(R, n, 100)
}
