package rules

import (
	"fmt"
	"go/types"
	"os"
	"strings"

	"stgverif/internal/core"
)

// R10 on the abstract evaluator: NASDecode is interpreted with PlainNasDecode, NASEncrypt and
// NASMacCalculate summarised and the COUNT methods entered (and recorded). Every outcome is
// classified by what its branch facts say about the security header type and the integrity
// algorithm; what is decided is read off the arguments of the crypto calls, the DL COUNT stored when
// the MAC is computed and the final state - whatever helpers, early returns or predicates the
// function is spelled with.

type nasDecOutcome struct {
	o              core.AOutcome
	enc, mac, pdec []*core.AEvent
}

func nasDecodeEval(c *core.Ctx) ([]nasDecOutcome, bool) {
	fn := mustFunc(c, pTglib, "NASDecode")
	ex := core.NewExec()
	ex.MaxStates = 4000
	ex.OnCall = func(ev *core.AEvent, m *core.AMem) (core.AVal, bool) {
		switch ev.Callee {
		case fnPlainDec:
			return core.AVal{K: core.AUnknown, Path: "plaindecerr"}, true
		case fnEncrypt:
			if len(ev.Args) == 6 && ev.Args[5].K == core.ASlice {
				m.HavocFrom(ev.Args[5].Path, ev.Args[5].Lo)
			}
			return core.AVal{K: core.AUnknown, Path: "encerr"}, true
		case fnMac:
			mac := core.AVal{K: core.ASlice, Path: "mac", Lo: 0, Len: 4, NonNil: true}
			for i := 0; i < 4; i++ {
				m.Store(fmt.Sprintf("mac[%d]", i), core.ArgBits(fmt.Sprintf("MAC[%d]", i), 8, 8), nil)
			}
			return core.AVal{K: core.ATuple, Elems: []core.AVal{mac, {K: core.AUnknown, Path: "macerr"}}}, true
		}
		if strings.HasPrefix(ev.Callee, pSec+".Count.") {
			ev.Record = true
		}
		return core.AVal{}, false
	}
	args := core.DefaultArgs(fn)
	if len(args) != 3 {
		return nil, false
	}
	outs, err := ex.Run(fn, args, nil)
	if err != nil || len(ex.Unsound) > 0 {
		c.SoftUndecided("NASDecode could not be evaluated abstractly (%v %v)", err, ex.Unsound)
		return nil, false
	}
	var res []nasDecOutcome
	for _, o := range outs {
		r := nasDecOutcome{o: o}
		for i := range o.Trace {
			switch o.Trace[i].Callee {
			case fnEncrypt:
				r.enc = append(r.enc, &o.Trace[i])
			case fnMac:
				r.mac = append(r.mac, &o.Trace[i])
			case fnPlainDec:
				r.pdec = append(r.pdec, &o.Trace[i])
			}
		}
		res = append(res, r)
	}
	if os.Getenv("VERIF_DEBUG") != "" {
		for i, r := range res {
			fmt.Printf("DEBUG nasdec %d panicked=%v conds=%v\n   facts=%v excl=%v nils=%v\n", i, r.o.Panicked, r.o.Conds, r.o.Facts, r.o.Excl, r.o.Nils)
			for j, x := range r.o.Ret {
				fmt.Printf("   ret%d=%s\n", j, x)
			}
			fmt.Printf("   dl=%s ul=%s\n", r.o.Mem.Load("p0.DLCount.count", types.Typ[types.Uint32]), r.o.Mem.Load("p0.ULCount.count", types.Typ[types.Uint32]))
			for _, ev := range r.o.Trace {
				var as []string
				for _, a := range ev.Args {
					as = append(as, clip(core.ArgName(a)))
				}
				fmt.Printf("   ev %s(%s)\n", shortName(ev.Callee), strings.Join(as, "; "))
			}
		}
	}
	return res, true
}

// feasibleOf: the values of dom the path's facts and exclusions leave possible for source src.
func feasibleOf(o core.AOutcome, src string, dom []int64) []int64 {
	var out []int64
	for _, v := range dom {
		ok := true
		if f, has := o.Facts[src]; has && (uint64(v) < f[0] || uint64(v) > f[1]) {
			ok = false
		}
		if f, has := o.SFacts[src]; has && (v < f[0] || v > f[1]) {
			ok = false
		}
		for _, x := range o.Excl[src] {
			if x == v {
				ok = false
			}
		}
		if ok {
			out = append(out, v)
		}
	}
	return out
}

func r10pathsX(c *core.Ctx) bool {
	const RD, RI, RC, RP = "R10.dir", "R10.iff", "R10.count", "R10.plain"
	fn := mustFunc(c, pTglib, "NASDecode")
	pos := fn.Pos()
	outs, ok := nasDecodeEval(c)
	if !ok {
		return false
	}
	aD, aI, aC, aP := newAgg(c, RD), newAgg(c, RI), newAgg(c, RC), newAgg(c, RP)
	const dl, ul = "p0.DLCount.count", "p0.ULCount.count"
	u32 := types.Typ[types.Uint32]
	nm := func(v core.AVal) string { return core.ArgName(v) }
	isSrc := func(v core.AVal, name string, w int) bool {
		return v.K == core.AInt && len(v.Bits) == w && v.Bits.IsCopy(w-1, 0, name, 0)
	}
	isKey := func(v core.AVal, name string) bool {
		if v.K != core.AAgg || len(v.Elems) != 16 {
			return false
		}
		for i, e := range v.Elems {
			if !isSrc(e, fmt.Sprintf("%s[%d]", name, i), 8) {
				return false
			}
		}
		return true
	}
	isConst := func(v core.AVal, k uint64) bool { x, ok := v.ConstVal(); return ok && x == k }
	low24 := func(v core.AVal) string {
		if v.K != core.AInt || len(v.Bits) < 24 {
			return nm(v)
		}
		return core.NameBits(v.Bits[:24])
	}
	sqnNames := map[string]bool{dl + "<7:0>": true}
	rcvNames := map[string]bool{"p2[6]": true, "p2[6]<7:0>": true}
	nProt, nPlain := 0, 0
	for _, r := range outs {
		o := r.o
		if o.Panicked || o.Nils["p0"] || o.Nils["p2"] {
			continue
		}
		if len(o.Ret) != 2 {
			aD.check(false, "tglib.NASDecode:shape", pos, "", "NASDecode does not return (message, error)")
			continue
		}
		if len(feasibleOf(o, "p0.IntegrityAlg", []int64{1, 2})) == 0 {
			continue // null integrity: outside the property
		}
		shts := feasibleOf(o, "p1", []int64{0, 1, 2, 3, 4})
		if len(shts) == 0 {
			continue
		}
		errV := o.Ret[1]
		known, decided := o.Nils[errV.Path]
		isErr := errV.NonNil || (errV.K == core.AUnknown && (errV.Path == "macerr" || errV.Path == "encerr") && decided && !known)
		for _, n := range []string{"macerr", "encerr"} {
			if isNil, dec := o.Nils[n]; dec && !isNil {
				isErr = true
			}
		}
		dlEnd, ulEnd := o.Mem.Load(dl, u32), o.Mem.Load(ul, u32)
		has0 := shts[0] == 0
		if has0 && len(shts) == 1 {
			nPlain++
			okState := len(r.enc) == 0 && len(r.mac) == 0 && nm(dlEnd) == dl && nm(ulEnd) == ul && len(o.Mem.Cells("p0.Knas")) == 0
			nCount := 0
			for _, ev := range o.Trace {
				if strings.HasPrefix(ev.Callee, pSec+".Count.Set") || ev.Callee == pSec+".Count.AddOne" {
					nCount++
				}
			}
			aP.check(okState && nCount == 0, "tglib.NASDecode:plain:no-security-state", pos, "no cipher, no MAC, counters and keys untouched", "a plain message (header type 0) must be decoded without touching security state (DL COUNT ends as %s, UL COUNT as %s, %d cipher and %d MAC calls)", clip(nm(dlEnd)), clip(nm(ulEnd)), len(r.enc), len(r.mac))
			aP.check(isErr || len(r.pdec) == 1, "tglib.NASDecode:plain:decoded", pos, "PlainNasDecode of the payload", "a plain message must be handed to PlainNasDecode (%d calls)", len(r.pdec))
			continue
		}
		if has0 {
			aP.check(false, "tglib.NASDecode:plain:own-path", pos, "", "a path is shared by plain (type 0) and protected header types %v", shts)
			continue
		}
		if isErr {
			continue // crypto error paths: nothing is returned
		}
		nProt++
		// ---- crypto arguments
		var derr []string
		if len(r.mac) != 1 {
			derr = append(derr, fmt.Sprintf("%d MAC computations on a protected path (want 1)", len(r.mac)))
		}
		var stored core.AVal
		for _, ev := range r.mac {
			a := ev.Args
			if len(a) != 6 {
				derr = append(derr, "NASMacCalculate is not called with six arguments")
				continue
			}
			stored = ev.Mem.Load(dl, u32)
			switch {
			case !isSrc(a[0], "p0.IntegrityAlg", 8):
				derr = append(derr, "MAC algorithm is "+clip(nm(a[0]))+", want ue.IntegrityAlg")
			case !isKey(a[1], "p0.KnasInt"):
				derr = append(derr, "MAC key is "+clip(nm(a[1]))+", want ue.KnasInt")
			case low24(a[2]) != low24(stored) || (a[2].K == core.AInt && len(a[2].Bits) == 32 && !a[2].Bits.IsConst(31, 24, 0) && !a[2].Bits.IsCopy(31, 24, dl, 24)):
				derr = append(derr, "MAC COUNT is "+clip(nm(a[2]))+", want the DL COUNT estimate in force ("+clip(low24(stored))+")")
			case !isConst(a[3], 1):
				derr = append(derr, "MAC bearer is "+nm(a[3])+", want 1 (3GPP access)")
			case !isConst(a[4], 1):
				derr = append(derr, "MAC direction is "+nm(a[4])+", want 1 (downlink)")
			case nm(a[5]) != "p2[6:]":
				derr = append(derr, "MAC input is "+clip(nm(a[5]))+", want payload[6:] (sequence number and message)")
			}
		}
		for _, ev := range r.enc {
			a := ev.Args
			if len(a) != 6 {
				derr = append(derr, "NASEncrypt is not called with six arguments")
				continue
			}
			st := ev.Mem.Load(dl, u32)
			switch {
			case !isSrc(a[0], "p0.CipheringAlg", 8):
				derr = append(derr, "cipher algorithm is "+clip(nm(a[0]))+", want ue.CipheringAlg")
			case !isKey(a[1], "p0.KnasEnc"):
				derr = append(derr, "cipher key is "+clip(nm(a[1]))+", want ue.KnasEnc")
			case low24(a[2]) != low24(st) || (stored.K == core.AInt && low24(st) != low24(stored)):
				derr = append(derr, "cipher COUNT is "+clip(nm(a[2]))+", want the DL COUNT estimate the MAC used ("+clip(low24(stored))+")")
			case !isConst(a[3], 1):
				derr = append(derr, "cipher bearer is "+nm(a[3])+", want 1 (3GPP access)")
			case !isConst(a[4], 1):
				derr = append(derr, "cipher direction is "+nm(a[4])+", want 1 (downlink)")
			case nm(a[5]) != "p2[7:]":
				derr = append(derr, "deciphered octets are "+clip(nm(a[5]))+", want payload[7:] (the message after the sequence number)")
			}
		}
		if len(r.pdec) != 1 {
			derr = append(derr, fmt.Sprintf("protected path plain-decodes the message %d times (want once, after unprotecting it)", len(r.pdec)))
		} else {
			last := -1
			for i := range o.Trace {
				if o.Trace[i].Callee == fnEncrypt || o.Trace[i].Callee == fnMac {
					last = i
				}
			}
			for i := range o.Trace {
				if o.Trace[i].Callee == fnPlainDec && i < last {
					derr = append(derr, "the message is plain-decoded before it is unprotected")
				}
			}
		}
		aD.check(len(derr) == 0, "tglib.NASDecode:protected:crypto-arguments", pos, "alg/key/DL COUNT estimate/bearer 1/direction 1; MAC over payload[6:], cipher over payload[7:], then PlainNasDecode", "%s (header types %v)", strings.Join(derr, "; "), shts)
		// ---- cipher iff 2/4
		ciph, clear := 0, 0
		for _, t := range shts {
			if t == 2 || t == 4 {
				ciph++
			} else {
				clear++
			}
		}
		switch {
		case len(r.enc) > 1:
			aI.check(false, "tglib.NASDecode:cipher-iff-header-type-2-or-4", pos, "", "message deciphered %d times", len(r.enc))
		case len(r.enc) == 1:
			aI.check(clear == 0, "tglib.NASDecode:cipher-iff-header-type-2-or-4", pos, "NASEncrypt runs exactly on the paths of header types 2 and 4", "message deciphered on a path taken for header types %v (types 1 and 3 are sent in clear)", shts)
		default:
			aI.check(ciph == 0, "tglib.NASDecode:cipher-iff-header-type-2-or-4", pos, "NASEncrypt runs exactly on the paths of header types 2 and 4", "message NOT deciphered on a path taken for header types %v (types 2 and 4 are ciphered)", shts)
		}
		// ---- the DL COUNT estimate
		var errs []string
		nReset, nKeep := 0, 0
		for _, t := range shts {
			if t == 3 || t == 4 {
				nReset++
			} else {
				nKeep++
			}
		}
		if nm(ulEnd) != ul {
			errs = append(errs, "uplink COUNT touched while unprotecting a downlink message (ends as "+clip(nm(ulEnd))+")")
		}
		if stored.K == core.AInt && low24(dlEnd) != low24(stored) {
			errs = append(errs, "DL COUNT changed after the MAC was computed (MAC used "+clip(low24(stored))+", stored "+clip(low24(dlEnd))+")")
		}
		est := dlEnd
		if est.K != core.AInt || len(est.Bits) != 32 {
			errs = append(errs, "DL COUNT ends as "+clip(nm(est)))
		} else {
			if !est.Bits.IsCopy(7, 0, "p2[6]", 0) {
				errs = append(errs, "DL SQN is "+clip(core.NameBits(est.Bits[:8]))+", want the received sequence number payload[6]")
			}
			ovf := est.Bits[8:24]
			ovfName := core.NameBits(ovf)
			keeps := ovf.IsCopy(15, 0, dl, 8)
			zero := ovf.IsConst(15, 0, 0)
			plus1 := false
			if k, terms, okL := core.LinForm(ovf); okL && k == 1 && len(terms) == 1 && terms[dl+"<23:8>"] == 1 {
				plus1 = true
			}
			switch {
			case nReset > 0 && nKeep > 0:
				errs = append(errs, fmt.Sprintf("one path serves header types %v: 3 and 4 must reset the DL COUNT, 1 and 2 must not", shts))
			case nReset > 0:
				if !zero {
					errs = append(errs, "DL COUNT not reset on a path taken for header types "+fmt.Sprint(shts)+" (overflow ends as "+clip(ovfName)+"; a new security context starts at 0)")
				}
			default:
				// stored SQN > received SQN ⇔ the 8-bit sequence number wrapped
				wrap, found, other := false, false, ""
				for _, rel := range o.Rels {
					var sL, rL bool
					switch {
					case sqnNames[rel.L] && rcvNames[rel.R]:
						sL = true
					case rcvNames[rel.L] && sqnNames[rel.R]:
						rL = true
					default:
						continue
					}
					op := rel.Op
					if rL { // received op stored: turn around
						op = flipOp(op)
					}
					_ = sL
					switch {
					case op.String() == ">" && rel.Taken, op.String() == "<=" && !rel.Taken:
						wrap, found = true, true
					case op.String() == ">" && !rel.Taken, op.String() == "<=" && rel.Taken:
						wrap, found = false, true
					default:
						other = fmt.Sprintf("stored SQN %s received SQN", op)
					}
				}
				switch {
				case other != "":
					errs = append(errs, "SQN wrap test is "+other+", want stored SQN > received SQN (payload[6])")
				case !found:
					errs = append(errs, "no comparison of the stored SQN with the received SQN on this path")
				case wrap && !plus1:
					errs = append(errs, "stored SQN > received SQN but the overflow counter ends as "+clip(ovfName)+", want Overflow()+1")
				case !wrap && !keeps:
					errs = append(errs, "overflow counter ends as "+clip(ovfName)+" although the sequence number did not wrap")
				}
			}
		}
		aC.check(len(errs) == 0, "tglib.NASDecode:protected:dl-count-estimate", pos, "reset iff header type 3/4; overflow+1 iff stored SQN > received SQN; SQN := payload[6]; UL COUNT untouched; estimate fixed before the MAC", "%s (header types %v)", strings.Join(errs, "; "), shts)
	}
	aC.check(nProt > 0 && nPlain > 0, "tglib.NASDecode:cases", pos, fmt.Sprintf("%d protected success and %d plain outcomes", nProt, nPlain), "expected protected and plain paths, found %d protected and %d plain", nProt, nPlain)
	aD.flush()
	aI.flush()
	aC.flush()
	aP.flush()
	c.Note("NASDecode: %d evaluated outcomes (%d protected success with NIA1/NIA2, %d plain)", len(outs), nProt, nPlain)
	return true
}
