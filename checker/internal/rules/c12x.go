package rules

import (
	"fmt"
	"sort"
	"strings"

	"golang.org/x/tools/go/ssa"

	"stgverif/internal/core"
)

// R12 on one symbolic loop iteration (DESIGN §11.16). The two hand-written extractors of
// stgutg/pdu.go walk a list of elements with a cursor. Their loops are interpreted once with the
// cursor (and every other loop-carried value) replaced by a name: each way through the body back
// to the loop head gives "under these facts about the octets at the cursor, the cursor advances
// by …", each way out gives what is returned in terms of the cursor. What is compared with the
// layout is therefore the arithmetic the code performs, not the expressions it is written with.

// loopWalk runs fn with every loop of package stgutg symbolic.
func loopWalk(fn *ssa.Function) (*core.Exec, []core.AOutcome, error) {
	ex := core.NewExec()
	ex.MaxStates = 2048
	ex.SymLoop = func(f *ssa.Function, h *ssa.BasicBlock) bool { return fnPkgPath(f) == pStg }
	ex.Enter = func(f *ssa.Function) bool { return f.Pkg != nil && f.Pkg.Pkg.Path() == pStg || f.Pkg == nil && core.RepoFunc(f) }
	ex.OnCall = func(ev *core.AEvent, m *core.AMem) (core.AVal, bool) {
		if strings.HasPrefix(ev.Callee, "fmt.") || strings.HasPrefix(ev.Callee, "log.") {
			return core.OpaqueRet(ev), true
		}
		return core.AVal{}, false
	}
	outs, err := ex.Run(fn, core.DefaultArgs(fn), nil)
	return ex, outs, err
}

// cursorOf picks the loop variable that walks the input: its own name has coefficient 1 in what
// every iteration carries forward.
func cursorOf(its []core.ALoopIter) string {
	counts := map[string]int{}
	for _, it := range its {
		for v, next := range it.Next {
			if next.K != core.AInt {
				continue
			}
			if _, terms, ok := core.LinForm(next.Bits); ok && terms[nm(it.Sym[v])] == 1 && len(terms) >= 1 {
				if c0, t0, _ := core.LinForm(next.Bits); !(c0 == 0 && len(t0) == 1) { // not simply carried over unchanged
					counts[v]++
				}
			}
		}
	}
	best, bn := "", 0
	var names []string
	for v := range counts {
		names = append(names, v)
	}
	sort.Strings(names)
	for _, v := range names {
		if counts[v] > bn {
			best, bn = v, counts[v]
		}
	}
	return best
}

func linString(c int64, terms map[string]int64) string {
	var names []string
	for n := range terms {
		names = append(names, n)
	}
	sort.Strings(names)
	parts := []string{fmt.Sprint(c)}
	for _, n := range names {
		switch terms[n] {
		case 1:
			parts = append(parts, n)
		default:
			parts = append(parts, fmt.Sprintf("%d*%s", terms[n], n))
		}
	}
	return strings.Join(parts, " + ")
}

func linIs(c int64, terms map[string]int64, wantC int64, want ...string) bool {
	if c != wantC || len(terms) != len(want) {
		return false
	}
	for _, w := range want {
		if terms[w] != 1 {
			return false
		}
	}
	return true
}

// octetCells: the cells an integer is assembled from, most significant octet first ("" when an
// octet is not one whole cell).
func octetCells(v core.AVal) []string {
	if v.K != core.AInt || len(v.Bits)%8 != 0 {
		return nil
	}
	n := len(v.Bits) / 8
	out := make([]string, n)
	for o := 0; o < n; o++ {
		bits := v.Bits[8*o : 8*o+8]
		name := ""
		for i, b := range bits {
			if b.Kind != core.BSrc || b.More != "" || b.Neg || b.Idx != i || (i > 0 && b.Src != name) {
				name = ""
				break
			}
			name = b.Src
		}
		out[n-1-o] = name
	}
	return out
}

// cellIndex splits "base[index]" into base and index.
func cellIndex(cell string) (string, string, bool) {
	if !strings.HasSuffix(cell, "]") {
		return "", "", false
	}
	depth := 0
	for i := len(cell) - 1; i >= 0; i-- {
		switch cell[i] {
		case ']':
			depth++
		case '[':
			depth--
			if depth == 0 {
				return cell[:i], cell[i+1 : len(cell)-1], true
			}
		}
	}
	return "", "", false
}

// r12transferX decides the transfer extractor's obligations; false: the model is not usable and
// the SSA rule runs.
func r12transferX(c *core.Ctx, R string, fn *ssa.Function, id int64) bool {
	ex, outs, err := loopWalk(fn)
	if err != nil || len(ex.Unsound) > 0 || len(ex.Iters) == 0 {
		c.Note("R12.off: symbolic-iteration model of DecodePDUSessionResourceSetupRequestTransfer not used (%v %v, %d iteration paths)", err, ex.Unsound, len(ex.Iters))
		return false
	}
	const K = "stgutg.DecodePDUSessionResourceSetupRequestTransfer:"
	cur := cursorOf(ex.Iters)
	if cur == "" {
		c.SoftUndecided("%s: no cursor variable found in the IE walk of the transfer extractor", R)
		return true
	}
	sym := nm(ex.Iters[0].Sym[cur])
	init, okI := ex.Iters[0].Init[cur].ConstVal()
	c.Check(okI && init == 3, R, K+"start", fn.Pos(), "first IE at octet 3", "the first IE of the transfer starts at octet 3 (preamble octet + 2-octet container length); the walk starts at %s", nm(ex.Iters[0].Init[cur]))
	idHi, idLo := uint64(id>>8), uint64(id&255)
	isMatch := func(facts map[string][2]uint64) bool {
		h, okH := facts["p0["+sym+"]"]
		l, okL := facts["p0[(1+"+sym+")]"]
		return okH && okL && h[0] == idHi && h[1] == idHi && l[0] == idLo && l[1] == idLo
	}
	lenCell := "p0[(3+" + sym + ")]"
	okStride, okStops := true, true
	gotStride := ""
	for _, it := range ex.Iters {
		if isMatch(it.Facts) {
			okStops = false
			continue
		}
		cc, terms, ok := core.LinForm(it.Next[cur].Bits)
		if !ok || !linIs(cc, terms, 4, sym, lenCell) {
			okStride = false
			if ok {
				gotStride = linString(cc, terms)
			} else {
				gotStride = nm(it.Next[cur])
			}
		}
	}
	// progress: every way back to the loop head moves the cursor forward
	okAdv, gotAdv := true, ""
	for _, it := range ex.Iters {
		cc, terms, ok := core.LinFormBits(it.Next[cur].Bits)
		self := false
		good := ok && cc >= 1
		for _, t := range terms {
			if t.Name == sym && t.Coef == 1 {
				self = true
			} else if t.Coef < 0 {
				good = false
			}
		}
		if !good || !self {
			okAdv, gotAdv = false, nm(it.Next[cur])
		}
	}
	c.Rule("R12.term", "both extractor loops: on every way back to the loop head the cursor is provably larger than before (no input makes the walk spin)")
	c.Check(okAdv, "R12.term", K+"advance", fn.Pos(), "every way back to the loop head advances the cursor by at least 1", "on a way back to the loop head the cursor becomes %s: there are inputs for which it does not advance and the loop never terminates", clip(gotAdv))
	xferDone[c] = true
	c.Check(okStride, R, K+"stride", fn.Pos(), "offset += 2 + 1 + 1 + length (every way back to the loop head)", "a non-matching IE must be skipped as id(2) + criticality(1) + length(1) + value(length): offset + 4 + transfer[offset+3]; the walk continues at %s", clip(gotStride))
	c.Check(okStops, R, K+"stops-at-match", fn.Pos(), "walk ends at id-UL-NGU-UP-TNLInformation",
		"after id-UL-NGU-UP-TNLInformation was found the walk goes on over the following IEs with a one-octet length reader: an IE of 128 octets or more after it (a QoS flow list with many flows) is misread and its contents can be taken for IE ids, overwriting the TEID and address already found")
	// the way out with a result: taken exactly when the id at the cursor is the wanted one
	okId, okT, okA := false, false, false
	gotT, gotA := "", ""
	nRes := 0
	for _, o := range outs {
		if o.Panicked || len(o.Ret) != 2 || o.Ret[0].K != core.AInt {
			continue
		}
		if k, isK := o.Ret[0].ConstVal(); isK && k == 0 {
			continue // nothing found
		}
		if strings.Contains(nm(o.Ret[0]), "φ") && !strings.Contains(nm(o.Ret[0]), "p0[") {
			continue // what an earlier iteration left (loop-carried result returned after the loop)
		}
		nRes++
		if isMatch(o.Facts) {
			okId = true
		}
		// TEID: 4 octets at cursor + 4 + length - 4
		cells := octetCells(o.Ret[0])
		okT = len(cells) == 4
		for i := 0; okT && i < 4; i++ {
			base, idx, ok := cellIndex(cells[i])
			cc, terms, okL := core.LinFormOfName(idx, 64)
			if !ok || base != "p0" || !okL || !linIs(cc, terms, int64(i), sym, lenCell) {
				okT = false
				gotT = cells[i]
			}
		}
		// address: the 4 octets before
		a := o.Ret[1]
		if a.K == core.ASlice && a.Path == "p0" && a.Len == 4 && a.LoBits != nil {
			cc, terms, okL := core.LinForm(a.LoBits)
			okA = okL && linIs(cc, terms, -4, sym, lenCell)
		}
		if !okA {
			gotA = nm(a)
		}
	}
	if nRes == 0 {
		c.SoftUndecided("%s: the transfer extractor has no evaluated way out that returns a TEID", R)
		return true
	}
	c.Check(okId, R, K+"ie-id", fn.Pos(), fmt.Sprintf("id at [offset:offset+2] == %d", id), "the IE id (octets offset..offset+1) must be compared with id-UL-NGU-UP-TNLInformation = %d", id)
	c.Check(okT, R, K+"teid", fn.Pos(), "TEID = last 4 octets of transfer[offset+4 : offset+4+length]", "the GTP TEID is the last 4 octets of the UP transport layer information (transfer[offset+4 : offset+4+length]); an octet is read from %s", clip(gotT))
	c.Check(okA, R, K+"upf-address", fn.Pos(), "address = the 4 octets before the TEID", "the IPv4 transport layer address is the 4 octets before the TEID; the code takes %s", clip(gotA))
	return true
}

// ---- the optional-element walk of DecodePDUSessionNASPDU -------------------------------------

type walkPos struct {
	sym   string           // name of the cursor during the iteration
	baseC int64            // position of the element at the cursor: baseC + Σ baseT + cursor
	baseT map[string]int64
}

// rel: cell is the octet k positions after the one at the cursor.
func (w *walkPos) rel(cell string) (int64, bool) {
	base, idx, ok := cellIndex(cell)
	if !ok || base != "p0" {
		return 0, false
	}
	c, terms, okL := core.LinFormOfName(idx, 64)
	if !okL || terms[w.sym] != 1 || len(terms) != len(w.baseT)+1 {
		return 0, false
	}
	for n, k := range w.baseT {
		if terms[n] != k {
			return 0, false
		}
	}
	return c - w.baseC, true
}

// findWalkPos: the cell whose value the path has pinned and whose position moves with the cursor
// is the element identifier at the cursor.
func findWalkPos(sym string, factSets ...map[string][2]uint64) *walkPos {
	for _, facts := range factSets {
		var names []string
		for n := range facts {
			names = append(names, n)
		}
		sort.Strings(names)
		for _, n := range names {
			cell := n
			if i := strings.Index(cell, "]<"); i > 0 && strings.HasSuffix(cell, ">") {
				cell = cell[:i+1] // a bit field of the cell
			}
			base, idx, ok := cellIndex(cell)
			if !ok || base != "p0" {
				continue
			}
			c, terms, okL := core.LinFormOfName(idx, 64)
			if !okL || terms[sym] != 1 {
				continue
			}
			w := &walkPos{sym: sym, baseC: c, baseT: map[string]int64{}}
			for t, k := range terms {
				if t != sym {
					w.baseT[t] = k
				}
			}
			return w
		}
	}
	return nil
}

// r12walkX decides the element-skip and progress obligations of the optional-element walk;
// false: the model is not usable and the SSA rules run.
func r12walkX(c *core.Ctx, std map[int64]int64, half map[int64]bool, pduIEI int64) bool {
	const R = "R12.off"
	const K = "stgutg.DecodePDUSessionNASPDU:"
	fn := mustFunc(c, pStg, "DecodePDUSessionNASPDU")
	ex, outs, err := loopWalk(fn)
	if err != nil || len(ex.Unsound) > 0 || len(ex.Iters) == 0 {
		c.Note("R12.off: symbolic-iteration model of DecodePDUSessionNASPDU not used (%v %v, %d iteration paths)", err, ex.Unsound, len(ex.Iters))
		return false
	}
	cur := cursorOf(ex.Iters)
	if cur == "" {
		c.SoftUndecided("%s: no cursor variable found in the optional-element walk", R)
		return true
	}
	sym := nm(ex.Iters[0].Sym[cur])
	var fs []map[string][2]uint64
	for _, it := range ex.Iters {
		fs = append(fs, it.Facts)
	}
	w := findWalkPos(sym, fs...)
	if w == nil {
		c.SoftUndecided("%s: the walk never tests the octet at the cursor", R)
		return true
	}
	c.Rule("R12.term", "both extractor loops: on every way back to the loop head the cursor is provably larger than before (no input makes the walk spin)")
	type verdict struct {
		ok   bool
		soft bool
		msg  string
	}
	skip := map[string]verdict{}
	adv := map[string]verdict{}
	var keys []string
	forms := map[string]bool{}
	for _, it := range ex.Iters {
		// which element is at the cursor on this path?
		iei, class := int64(-1), ""
		for n, f := range it.Facts {
			cell, field := n, ""
			if i := strings.Index(n, "]<"); i > 0 && strings.HasSuffix(n, ">") {
				cell, field = n[:i+1], n[i+1:]
			}
			if k, ok := w.rel(cell); ok && k == 0 && f[0] == f[1] {
				switch field {
				case "":
					iei, class = int64(f[0]), "full"
				case "<7:4>":
					if class == "" {
						iei, class = int64(f[0])<<4, "half"
					}
				}
			}
		}
		key := "other"
		switch class {
		case "full":
			key = fmt.Sprintf("iei=%#02x", iei)
		case "half":
			key = fmt.Sprintf("iei=%#02x(half-octet)", iei)
		}
		if _, seen := skip[key]; !seen {
			keys = append(keys, key)
		}
		cc, terms, okL := core.LinFormBits(it.Next[cur].Bits)
		var others []core.LinTerm
		selfOK := false
		for _, t := range terms {
			if t.Name == sym && t.Coef == 1 {
				selfOK = true
			} else {
				others = append(others, t)
			}
		}
		got := nm(it.Next[cur])
		if !okL || !selfOK {
			skip[key] = verdict{false, false, "the cursor is set to " + clip(got) + ", not advanced from its position"}
			adv[key] = verdict{false, false, "the cursor is set to " + clip(got)}
			continue
		}
		// progress: constant part >= 1 and nothing that could be negative or wrap
		okAdv := cc >= 1
		for _, t := range others {
			if t.Coef < 0 {
				okAdv = false
			}
			// an operand narrower than the cursor that is itself a sum may have wrapped to 0: it
			// counts as >= 0 only, which is what the constant part is there for
		}
		if okAdv {
			if v, seen := adv[key]; !seen || v.ok {
				adv[key] = verdict{ok: true, msg: fmt.Sprintf("advances by at least %d", cc)}
			}
		} else {
			adv[key] = verdict{false, false, fmt.Sprintf("on this way back to the loop head the cursor advances by %s: there are inputs for which it does not advance and the loop never terminates", clip(strings.TrimSpace(strings.Replace(got, sym, "cursor", -1))))}
		}
		// the skip form the element's format asks for
		want, form := "", ""
		okSkip := false
		switch {
		case class == "half" && half[iei]:
			want, form = "1 (type 1 IE: half octet)", "half-octet: +1"
			okSkip = cc == 1 && len(others) == 0
		case class == "full":
			l, known := std[iei]
			switch {
			case !known && iei == pduIEI:
				want = "none: the PDU address ends the walk"
			case !known:
				want = "none: an element the standard does not list here has no known length"
			case l > 0:
				want, form = fmt.Sprintf("%d (fixed size)", l), "fixed size"
				okSkip = cc == l && len(others) == 0
			case l == -1:
				want, form = "2 + the length octet", "one length octet: +2+len"
				if cc == 2 && len(others) == 1 && others[0].Coef == 1 {
					k, ok := w.rel(others[0].Name)
					okSkip = ok && k == 1
				}
			case l == -2:
				want, form = "3 + the two length octets (big endian)", "two length octets: +3+len"
				if cc == 3 && len(others) == 1 && others[0].Coef == 1 {
					b := others[0].Bits
					if len(b) >= 16 {
						cells := octetCells(core.AVal{K: core.AInt, Bits: b[:16]})
						rest := true
						for _, x := range b[16:] {
							if x.Kind != core.BZero {
								rest = false
							}
						}
						if len(cells) == 2 && rest {
							k1, ok1 := w.rel(cells[0])
							k2, ok2 := w.rel(cells[1])
							okSkip = ok1 && ok2 && k1 == 1 && k2 == 2
						}
					}
				}
			}
		default:
			want = "none: the walk goes on without having identified the element at the cursor"
		}
		if okSkip {
			forms[form] = true
			if v, seen := skip[key]; !seen || v.ok {
				skip[key] = verdict{ok: true, msg: form}
			}
		} else {
			skip[key] = verdict{false, false, fmt.Sprintf("the element is skipped by %s; its format asks for %s", clip(strings.Replace(got, sym, "cursor", -1)), want)}
		}
	}
	sort.Strings(keys)
	for _, k := range keys {
		v := skip[k]
		c.Check(v.ok, R, K+"skip:"+k, fn.Pos(), v.msg, "%s: %s", k, v.msg)
		a := adv[k]
		c.Check(a.ok, "R12.term", K+"advance:"+k, fn.Pos(), a.msg, "%s: %s", k, a.msg)
	}
	c.Sites(2 * len(keys))
	if len(forms) < 4 {
		c.SoftUndecided("DecodePDUSessionNASPDU: only %d of the 4 element-skip forms occur in the evaluated walk", len(forms))
	}
	// the PDU address: found by its identifier, value = the 4 octets after IEI, length and type
	okAddr, gotAddr := false, ""
	for _, o := range outs {
		if o.Panicked || len(o.Ret) != 1 || o.Ret[0].K != core.ASlice || o.Ret[0].LoBits == nil {
			continue
		}
		a := o.Ret[0]
		cell := fmt.Sprintf("p0[%s]", core.NameBits(a.LoBits))
		k, ok := w.rel(cell)
		idOK := false
		for n, f := range o.Facts {
			if kk, okk := w.rel(n); okk && kk == 0 && f[0] == uint64(pduIEI) && f[1] == uint64(pduIEI) {
				idOK = true
			}
		}
		if ok && k == 3 && a.Len == 4 && idOK {
			okAddr = true
		} else {
			gotAddr = nm(a)
		}
	}
	c.Check(okAddr, R, K+"pdu-address-at-cursor", fn.Pos(), fmt.Sprintf("IEI %#02x at the cursor ⇒ the 4 octets at cursor+3", pduIEI), "the IPv4 address is the 4 octets after IEI, length and PDU session type octet of the element whose identifier is %#02x; the code returns %s", pduIEI, clip(gotAddr))
	return true
}

// r12offX: the layout of the mandatory part, read off where the optional-element walk starts: the
// element at cursor 0 sits at (security header + DL NAS TRANSPORT header + mandatory part of the
// Accept + session AMBR) + (QoS rules length), the length being the big-endian word at its place in
// the Accept. Used when the slices of the mandatory part are no longer found in the extractor itself
// (moved into a helper); decides the same positions from the arithmetic the code performs.
func r12offX(c *core.Ctx, R string, wantConst, qosLenAt, pduIEI int64) bool {
	fn := mustFunc(c, pStg, "DecodePDUSessionNASPDU")
	ex, _, err := loopWalk(fn)
	if err != nil || len(ex.Unsound) > 0 || len(ex.Iters) == 0 {
		return false
	}
	cur := cursorOf(ex.Iters)
	if cur == "" {
		return false
	}
	sym := nm(ex.Iters[0].Sym[cur])
	var fs []map[string][2]uint64
	for _, it := range ex.Iters {
		fs = append(fs, it.Facts)
	}
	w := findWalkPos(sym, fs...)
	if w == nil {
		return false
	}
	init, okI := ex.Iters[0].Init[cur].ConstVal()
	// flatten operands that are themselves sums at a narrower width (5+2+QoSRulesLength+7 in uint16)
	total := w.baseC
	var leaves []string
	for t, k := range w.baseT {
		if k != 1 {
			return false
		}
		cc, terms, ok := core.LinFormOfName(t, 16)
		if ok && (cc != 0 || len(terms) != 1 || terms[t] != 1) {
			total += cc
			for n, kk := range terms {
				if kk != 1 {
					return false
				}
				leaves = append(leaves, n)
			}
			continue
		}
		leaves = append(leaves, t)
	}
	okLen := false
	gotLen := strings.Join(leaves, " + ")
	if len(leaves) == 1 {
		want := fmt.Sprintf("{[15:8]=p0[%d][7:0] [7:0]=p0[%d][7:0]}", qosLenAt, qosLenAt+1)
		okLen = leaves[0] == want
	}
	c.Check(okI && init == 0 && total == wantConst && okLen, R, "stgutg.DecodePDUSessionNASPDU:optional-part-start", fn.Pos(),
		fmt.Sprintf("first optional element at octet %d + the QoS rules length read at octets %d..%d", wantConst, qosLenAt, qosLenAt+1),
		"the optional IEs start after the security header, the DL NAS TRANSPORT header, the mandatory part of the Accept, the QoS rules and the session AMBR: octet %d + the QoS rules length (big-endian word at octets %d..%d); the code starts the walk at %d + %s (cursor from %d)", wantConst, qosLenAt, qosLenAt+1, total, clip(gotLen), init)
	c.Note("R12.off: the mandatory-part slices of DecodePDUSessionNASPDU were not found in the function itself; the layout was read off the start of the optional-element walk (payload-container bounds are not decided in this form)")
	return true
}
