#!/bin/bash
# tryseed.sh <prop> <patchfile> [more props...] : apply a patch to a scratch copy of /repo and run the quick checks
P=$1; PATCH=$2; shift 2
SV=${SV:-}
if [ -z "$SV" ]; then /verif/check list quick >/dev/null || { echo "CHECKER BUILD FAILED"; exit 4; }; SV=/verif/bin/stgverif; fi
T=$(mktemp -d /tmp/stgseed.XXXX)
rsync -a --exclude .git --exclude SEED /repo/ $T/repo/
( cd $T/repo && patch -p1 --batch -s < $PATCH ) || { echo "PATCH FAILED"; rm -rf $T; exit 3; }
for prop in $P "$@"; do
  VERIF_DIR=/verif VERIF_REPO=$T/repo VERIF_EVIDENCE_DIR=$T/ev $SV $prop quick | grep -v "^  rule\|^property=\|^  note" | cut -c1-400
  echo "[$prop exit=${PIPESTATUS[0]}]"
done
rm -rf $T
