package rules

import (
	"fmt"
	"go/ast"
	"go/constant"
	"go/token"
	"go/types"
	"sort"
	"strings"

	"golang.org/x/tools/go/ssa"

	"stgverif/internal/core"
)

func init() { Registry["C08"] = c08; Registry["C09"] = c09 }

func c08(c *core.Ctx) map[string]interface{} {
	c.Explanation = "Static pairing check of the generated NAS codec (C08), on the AST + types of all 45 message files. Decided: (R8.dispatch) each of the 44 message-type constants has exactly one case in the decode and one in the encode switch of its family, the decode case allocates New<X> into field <X> and calls Decode<X>, the encode case calls Encode<X> of the same message, both switches end in an error default, an unknown EPD is an error, and a message of exactly its header octets (3 for 5GMM, 4 for 5GSM: one without further mandatory IEs) still reaches the codec of every message type; (R8.mand) the mandatory part of Encode<X> and Decode<X> is the same sequence of (IE, Len/Value) tokens, covers every non-pointer field of the struct in declaration order, and every length-prefixed buffer is sized (SetLen) before it is read; (R8.opt) every optional IE has exactly one `if a.F != nil` block in Encode<X> and one case in Decode<X> keyed by its own <X><F>Type constant, the two sides use the same format (half-octet / TV / TLV), the constructor is New<F>, length-prefixed fixed arrays are sliced by Len on both sides, IEI constants are pairwise distinct within a message and half-octet IEIs are 8..15 while full IEIs are below 0x80 (the decoder's nibble normalisation depends on it); (R8.loop) every Decode<X> walks its optional part with `for buffer.Len() > 0`, one IEI octet per iteration and the one uniform half-octet normalisation (deviant detection across the 45 siblings). (R8.fresh) PlainNasEncode returns the contents of a buffer created by the same call and retained nowhere (no pool, cache or package-level scratch buffer whose reuse would change an earlier result); (R9.acc.*) the accessors of the 151 IE value types, as in C09: Get/Set pairs address the same octets and bits, SetLen stores the length it is given and sizes Buffer to exactly that many octets (the decoder relies on both). NOT decided: equality for particular values (e.g. capacity limits of fixed arrays, Len fields that disagree with the buffer they describe)."
	c.Assumptions = []string{"encoding/binary.Write/Read move exactly the octets of the operand they are given"}
	m := buildNasModel(c)
	if len(m.Msgs) < 40 {
		c.Undecided("NAS model found only %d message types (expected 45)", len(m.Msgs))
	}
	r8dispatchX(c, m)
	r8pairs(c, m)
	r8fresh(c)
	r9acc(c)
	return map[string]interface{}{"messages_modelled": len(m.Msgs)}
}

// ---------------------------------------------------------------- R8.dispatch
func r8dispatch(c *core.Ctx, m *nasModel) {
	const R = "R8.dispatch"
	c.Rule(R, "nas.go: every MsgType constant ↔ one decode case (New<X>, field <X>, Decode<X>) and one encode case (Encode<X>); error defaults; EPD dispatch")
	pk := c.P.Pkg(pNas)
	// message type constants per family by value range
	mt := map[string]int64{}
	for _, n := range pk.Types.Scope().Names() {
		if k, ok := pk.Types.Scope().Lookup(n).(*types.Const); ok && strings.HasPrefix(n, "MsgType") {
			if v, ok := constant.Int64Val(constant.ToInt(k.Val())); ok {
				mt[n] = v
			}
		}
	}
	if len(mt) < 40 {
		c.Undecided("only %d MsgType constants found in package nas", len(mt))
	}
	type sw struct {
		fam   string
		decl  *ast.FuncDecl
		cases map[string][]ast.Stmt
		deflt []ast.Stmt
	}
	find := func(name string) *sw {
		fd := c.P.FuncDecl(pNas, "Message."+name)
		if fd == nil {
			c.Undecided("anchor nas.Message.%s not found", name)
		}
		c.Analysed(pNas + ".Message." + name)
		s := &sw{decl: fd, cases: map[string][]ast.Stmt{}}
		ast.Inspect(fd.Body, func(n ast.Node) bool {
			ss, ok := n.(*ast.SwitchStmt)
			if !ok {
				return true
			}
			for _, cc := range ss.Body.List {
				cl := cc.(*ast.CaseClause)
				if cl.List == nil {
					s.deflt = cl.Body
					continue
				}
				for _, e := range cl.List {
					key := exprStr(e)
					if _, dup := s.cases[key]; dup {
						c.Fail(R, "nas."+name+":"+key+":duplicate", e.Pos(), "message type handled by two cases")
					}
					s.cases[key] = cl.Body
				}
			}
			return false
		})
		return s
	}
	fams := []struct {
		fam, dec, enc, field string
	}{{"Gmm", "GmmMessageDecode", "GmmMessageEncode", "GmmMessage"}, {"Gsm", "GsmMessageDecode", "GsmMessageEncode", "GsmMessage"}}
	covered := map[string]bool{}
	for _, f := range fams {
		d, e := find(f.dec), find(f.enc)
		var names []string
		for k := range d.cases {
			names = append(names, k)
		}
		for k := range e.cases {
			if _, ok := d.cases[k]; !ok {
				names = append(names, k)
			}
		}
		sort.Strings(names)
		for _, k := range names {
			key := "nas." + f.fam + ":" + k
			if _, known := mt[k]; !known {
				c.Fail(R, key, d.decl.Pos(), "case label %s is not a MsgType constant", k)
				continue
			}
			covered[k] = true
			X := strings.TrimPrefix(k, "MsgType")
			db, eb := d.cases[k], e.cases[k]
			wantD := []string{
				fmt.Sprintf("a.%s.%s=nasMessage.New%s(%s)", f.field, X, X, k),
				fmt.Sprintf("a.%s.Decode%s(byteArray)", f.field, X),
			}
			wantE := []string{fmt.Sprintf("a.%s.Encode%s(buffer)", f.field, X)}
			gotD, gotE := stmtsStr(db), stmtsStr(eb)
			okD := len(gotD) == 2 && gotD[0] == wantD[0] && gotD[1] == wantD[1]
			okE := len(gotE) == 1 && gotE[0] == wantE[0]
			if m.Msgs[X] == nil {
				c.Fail(R, key, d.decl.Pos(), "message type %s has no message %s with Encode/Decode methods", k, X)
				continue
			}
			pos := d.decl.Pos()
			if len(db) > 0 {
				pos = db[0].Pos()
			}
			c.Check(okD, R, key+":decode", pos, strings.Join(wantD, "; "), "decode case must be %v, is %v", wantD, gotD)
			if len(eb) > 0 {
				pos = eb[0].Pos()
			}
			c.Check(okE, R, key+":encode", pos, wantE[0], "encode case must be %v, is %v", wantE, gotE)
		}
		for _, s := range []*sw{d, e} {
			okDef := len(s.deflt) == 1 && strings.HasPrefix(stmtsStr(s.deflt)[0], "return fmt.Errorf(")
			c.Check(okDef, R, "nas."+s.decl.Name.Name+":default", s.decl.Pos(), "default: return error", "unknown message types must be reported as an error by the default case")
		}
	}
	var missing []string
	for k := range mt {
		if !covered[k] {
			missing = append(missing, k)
		}
	}
	sort.Strings(missing)
	c.Check(len(missing) == 0, R, "nas:all-message-types-dispatched", token.NoPos, fmt.Sprintf("%d message types", len(mt)), "message types without a dispatch case: %v", missing)
	// values distinct per family
	seenV := map[int64]string{}
	for k, v := range mt {
		if p, dup := seenV[v]; dup {
			c.Fail(R, "nas:"+k+":value", token.NoPos, "%s and %s share the value %d", k, p, v)
		}
		seenV[v] = k
	}
	// EPD dispatch
	pd := c.P.FuncDecl(pNas, "Message.PlainNasDecode")
	pe := c.P.FuncDecl(pNas, "Message.PlainNasEncode")
	if pd == nil || pe == nil {
		c.Undecided("anchors PlainNasDecode/PlainNasEncode not found")
	}
	okP := true
	var epdCases []string
	ast.Inspect(pd.Body, func(n ast.Node) bool {
		if cl, ok := n.(*ast.CaseClause); ok && len(cl.List) == 1 {
			epdCases = append(epdCases, exprStr(cl.List[0])+"→"+strings.Join(stmtsStr(cl.Body), ";"))
		}
		return true
	})
	sort.Strings(epdCases)
	wantEpd := []string{"nasMessage.Epd5GSMobilityManagementMessage→return a.GmmMessageDecode(byteArray)", "nasMessage.Epd5GSSessionManagementMessage→return a.GsmMessageDecode(byteArray)"}
	last := pd.Body.List[len(pd.Body.List)-1]
	okErr := strings.HasPrefix(stmtStrAny(last), "return fmt.Errorf(")
	c.Check(okP && fmt.Sprint(epdCases) == fmt.Sprint(wantEpd) && okErr, R, "nas.PlainNasDecode:epd", pd.Pos(), "EPD 0x7E → 5GMM, 0x2E → 5GSM, anything else → error", "PlainNasDecode must dispatch on the EPD to the two families and fail for any other value; cases %v, final error %v", epdCases, okErr)
	lastE := pe.Body.List[len(pe.Body.List)-1]
	c.Check(strings.HasPrefix(stmtStrAny(lastE), "return nil, fmt.Errorf("), R, "nas.PlainNasEncode:empty", pe.Pos(), "neither family set → error", "PlainNasEncode must fail when neither a 5GMM nor a 5GSM message is set")
	epdM, epdS := mustConst(c, pNasM, "Epd5GSMobilityManagementMessage"), mustConst(c, pNasM, "Epd5GSSessionManagementMessage")
	c.Check(epdM == 0x7e && epdS == 0x2e, R, "nasMessage.Epd", token.NoPos, "0x7E / 0x2E", "EPD values must be 0x7E (5GMM) and 0x2E (5GSM), are %#x / %#x", epdM, epdS)
}

func stmtsStr(ss []ast.Stmt) []string {
	var out []string
	for _, s := range ss {
		out = append(out, stmtStrAny(s))
	}
	return out
}

func stmtStrAny(s ast.Stmt) string {
	switch x := s.(type) {
	case *ast.ReturnStmt:
		var rs []string
		for _, r := range x.Results {
			rs = append(rs, exprStr(r))
		}
		return "return " + strings.Join(rs, ", ")
	}
	return stmtStr(s)
}

// ---------------------------------------------------------------- R8.mand / R8.opt / R8.loop
func r8pairs(c *core.Ctx, m *nasModel) {
	const RM, RO, RL = "R8.mand", "R8.opt", "R8.loop"
	c.Rule(RM, "Encode<X>/Decode<X>: identical mandatory token sequence covering all non-pointer fields in order; buffers sized before read")
	c.Rule(RO, "every optional IE: one encode block ⇔ one decode case of its own constant, same format, New<F>, Len-sliced arrays, distinct IEIs in the right ranges")
	c.Rule(RL, "every Decode<X> loops `for buffer.Len() > 0`, reads one IEI octet and applies the uniform half-octet normalisation")
	var names []string
	for n := range m.Msgs {
		names = append(names, n)
	}
	sort.Strings(names)
	loops := map[string][]string{}
	nMand, nOpt := 0, 0
	for _, n := range names {
		msg := m.Msgs[n]
		c.Analysed(pNasM + "." + n)
		if un := msg.uninterpreted(); len(un) > 0 && n != "SecurityProtected5GSNASMessage" {
			c.SoftUndecided("nasMessage.%s: the codec moves octets with statements the model does not interpret (%s); the message is not decided", n, clip(strings.Join(un, "; ")))
			continue
		}
		for _, p := range msg.Problems {
			if n == "SecurityProtected5GSNASMessage" && strings.Contains(p, "Plain5GSNASMessage") {
				continue // the envelope's opaque remainder (not one of the 45 plain messages' IEs)
			}
			c.SoftUndecided("nasMessage.%s: %s", n, p)
		}
		// ---- mandatory
		var encSeq, decSeq []string
		needSetLen := map[string]bool{}
		setLenSeen := map[string]bool{}
		okOrder := true
		for _, t := range msg.EncMand {
			encSeq = append(encSeq, t.Field+"."+t.Part)
		}
		for _, t := range msg.DecMand {
			if t.Part == "SetLen" {
				setLenSeen[t.Field] = true
				continue
			}
			if t.Part == "Value" && strings.HasPrefix(t.Arg, "Buffer") && !setLenSeen[t.Field] {
				needSetLen[t.Field] = true
			}
			decSeq = append(decSeq, t.Field+"."+t.Part)
		}
		// struct order coverage
		var structMand []string
		byField := map[string]*nasIE{}
		for _, ie := range msg.IEs {
			byField[ie.Field] = ie
			if !ie.Optional {
				structMand = append(structMand, ie.Field)
			}
		}
		var encFields []string
		for _, t := range msg.EncMand {
			if len(encFields) == 0 || encFields[len(encFields)-1] != t.Field {
				encFields = append(encFields, t.Field)
			}
		}
		if n != "SecurityProtected5GSNASMessage" {
			if strings.Join(encFields, ",") != strings.Join(structMand, ",") {
				okOrder = false
			}
			nMand += len(structMand)
			c.Check(strings.Join(encSeq, " ") == strings.Join(decSeq, " "), RM, "nasMessage."+n+":enc-dec-sequence", msg.EncPos, fmt.Sprintf("%d tokens", len(encSeq)), "mandatory part differs: Encode writes [%s], Decode reads [%s]", strings.Join(encSeq, " "), strings.Join(decSeq, " "))
			c.Check(okOrder, RM, "nasMessage."+n+":covers-mandatory-fields", msg.EncPos, strings.Join(structMand, ","), "Encode must write all mandatory fields in declaration order [%s]; writes [%s]", strings.Join(structMand, ","), strings.Join(encFields, ","))
			for f := range needSetLen {
				c.Fail(RM, "nasMessage."+n+":"+f+":setlen", msg.DecPos, "buffer of %s is read before SetLen allocated it (nothing would be read)", f)
			}
			// Len before Value for length-prefixed mandatory IEs
			for _, f := range structMand {
				ie := byField[f]
				var parts []string
				for _, t := range msg.EncMand {
					if t.Field == f {
						parts = append(parts, t.Part)
					}
				}
				want := "Value"
				if ie.LenWidth > 0 {
					want = "Len,Value"
				}
				if strings.Join(parts, ",") != want {
					c.Fail(RM, "nasMessage."+n+":"+f+":format", msg.EncPos, "mandatory IE %s is written as [%s], its type needs [%s]", f, strings.Join(parts, ","), want)
				}
			}
		}
		// ---- optional
		seenIEI := map[int64]string{}
		for _, ie := range msg.IEs {
			if !ie.Optional {
				continue
			}
			nOpt++
			key := "nasMessage." + n + ":" + ie.Field
			if len(ie.Enc) == 0 {
				c.Fail(RO, key+":encode-block", msg.EncPos, "optional IE %s is never written by Encode%s", ie.Field, n)
				continue
			}
			if len(ie.Dec) == 0 {
				c.Fail(RO, key+":decode-case", msg.DecPos, "optional IE %s has no case in Decode%s (it is skipped octet by octet as unknown IEIs)", ie.Field, n)
				continue
			}
			// the case constant
			cn := ""
			for k, f := range msg.DecCases {
				if f == ie.Field {
					cn = k
				}
			}
			if cn != ie.IEIConst {
				c.Fail(RO, key+":constant", msg.DecPos, "decode case for %s is keyed by %s, want its own constant %s", ie.Field, cn, ie.IEIConst)
				continue
			}
			ef, df := ie.format(ie.Enc), ie.format(ie.Dec)
			wantDec := map[string]string{"Value": "ValueFromIei", "Iei,Value": "Value", "Iei,Len,Value": "Len,Value"}[ef]
			if wantDec == "" {
				c.Fail(RO, key+":format", msg.EncPos, "optional IE %s is written as [%s]: not one of the forms its %d siblings use (half-octet TV = Value; TV = Iei,Value; TLV = Iei,Len,Value)", ie.Field, ef, len(m.Msgs)-1)
				continue
			}
			okF := df == wantDec
			// constructor and SetLen
			okNew := len(ie.Dec) > 0 && ie.Dec[0].Part == "New" && ie.Dec[0].Arg == "New"+ie.TypeName
			okSet := true
			if ef == "Iei,Len,Value" {
				okSet = false
				for i, t := range ie.Dec {
					if t.Part == "SetLen" && i > 0 && ie.Dec[i-1].Part == "Len" {
						okSet = true
					}
				}
			}
			// array values with a Len are sliced on both sides
			okSlice := true
			if ie.LenWidth > 0 && ie.ValueKind == "array" {
				for _, t := range append(append([]nasTok{}, ie.Enc...), ie.Dec...) {
					if t.Part == "Value" && t.Arg != "Octet[:Len]" {
						okSlice = false
					}
				}
			}
			// Len field must exist when Len is written, and vice versa
			okLen := (ie.LenWidth > 0) == (ef == "Iei,Len,Value")
			if ef == "Value" {
				okLen = ie.LenWidth == 0
			}
			detail := fmt.Sprintf("enc [%s] dec [%s]", ef, df)
			switch {
			case !okF:
				c.Fail(RO, key+":format", msg.DecPos, "format mismatch for %s: Encode writes [%s] but Decode reads [%s] (want [%s])", ie.Field, ef, df, wantDec)
			case !okNew:
				c.Fail(RO, key+":constructor", msg.DecPos, "decode case of %s must allocate with nasType.New%s(ieiN) first; tokens %v", ie.Field, ie.TypeName, ie.Dec)
			case !okSet:
				c.Fail(RO, key+":setlen", msg.DecPos, "decode case of %s reads the length but does not SetLen before reading the value", ie.Field)
			case !okSlice:
				c.Fail(RO, key+":len-slice", msg.EncPos, "%s has a length octet and a fixed %d-octet array: both Encode and Decode must move exactly Octet[:Len]; tokens enc %v dec %v", ie.Field, ie.ValueSize, ie.Enc, ie.Dec)
			case !okLen:
				c.Fail(RO, key+":len-field", msg.EncPos, "%s: the IE type has a %d-octet Len field but the message writes [%s]", ie.Field, ie.LenWidth, ef)
			default:
				c.Ok(RO, key, ie.Pos, detail)
			}
			// IEI ranges and distinctness
			if prev, dup := seenIEI[ie.IEI]; dup {
				c.Fail(RO, key+":iei-unique", msg.Pos, "IEI %#02x is used by both %s and %s in %s", ie.IEI, prev, ie.Field, n)
			}
			seenIEI[ie.IEI] = ie.Field
			if ef == "Value" {
				c.Check(ie.IEI >= 8 && ie.IEI <= 15, RO, key+":iei-range", msg.Pos, fmt.Sprintf("half-octet IEI %#x-", ie.IEI), "half-octet IE %s needs an IEI nibble 8..F (the decoder normalises octets >= 0x80 to their high nibble); constant is %#x", ie.Field, ie.IEI)
			} else {
				c.Check(ie.IEI >= 0x10 && ie.IEI < 0x80, RO, key+":iei-range", msg.Pos, fmt.Sprintf("IEI %#02x", ie.IEI), "IE %s needs an IEI in 0x10..0x7F; constant is %#x", ie.Field, ie.IEI)
			}
		}
		// encode order of optional blocks = struct order (canonical IE order)
		var structOpt []string
		for _, ie := range msg.IEs {
			if ie.Optional {
				structOpt = append(structOpt, ie.Field)
			}
		}
		c.Check(strings.Join(msg.EncOrder, ",") == strings.Join(structOpt, ","), RO, "nasMessage."+n+":canonical-order", msg.EncPos, fmt.Sprintf("%d optional IEs in table order", len(structOpt)), "Encode must emit optional IEs in declaration (table) order [%s]; emits [%s]", strings.Join(structOpt, ","), strings.Join(msg.EncOrder, ","))
		// every decode case belongs to an optional field
		for cn, f := range msg.DecCases {
			if ie := byField[f]; ie == nil || !ie.Optional {
				c.Fail(RO, "nasMessage."+n+":case:"+cn, msg.DecPos, "decode case %s does not handle an optional IE of the message", cn)
			}
		}
		loops[msg.Loop] = append(loops[msg.Loop], n)
	}
	c.Floor(RM, nMand, 190)
	c.Floor(RO, nOpt, 155)
	// ---- loop deviants
	best, bestN := "", 0
	for l, ns := range loops {
		if len(ns) > bestN {
			best, bestN = l, len(ns)
		}
	}
	// a loop form is canonical when it reads one IEI octet, normalises half-octet IEIs and switches on
	// the result: spelled inline, or through a helper that does exactly that (each form is judged on
	// its own: decoders may share a helper while their siblings keep the inline preamble)
	canon := func(l string, ns []string) bool {
		if strings.HasPrefix(l, "for buffer.Len() > 0 {") && strings.HasSuffix(l, "switch tmpIeiN }") {
			// exactly: declarations, one read of the IEI octet, the normalisation, the switch - nothing else
			// (an extra statement between them, e.g. an early break, changes which IEs are decoded)
			body := strings.TrimSuffix(strings.TrimPrefix(l, "for buffer.Len() > 0 {"), "switch tmpIeiN }")
			nRead, nNorm, extra := 0, 0, false
			for _, st := range strings.Split(body, ";") {
				st = strings.TrimSpace(st)
				switch {
				case st == "":
				case strings.HasPrefix(st, "var "):
				case st == "binary.Read(buffer, binary.BigEndian, &ieiN)":
					nRead++
				case st == "if ieiN >= 0x80 {tmpIeiN=(ieiN & 0xf0) >> 4} else {tmpIeiN=ieiN}":
					nNorm++
				default:
					extra = true
				}
			}
			if nRead == 1 && nNorm == 1 && !extra {
				return true
			}
		}
		if strings.HasPrefix(l, "for buffer.Len() > 0 { octet, ") && strings.Contains(l, ":= @helper(buffer); switch ") {
			// the preamble is a helper: the decoders of this form must use the same one, the switch must be on its
			// second result, and the helper must read one octet r and return (r, r>=0x80 ? r>>4 : r)
			tag := l[strings.Index(l, "octet, ")+7 : strings.Index(l, " := @helper")]
			fnName := ""
			same := true
			for _, n := range ns {
				if fnName == "" {
					fnName = m.Msgs[n].LoopFn
				} else if m.Msgs[n].LoopFn != fnName {
					same = false
				}
			}
			return same && strings.HasSuffix(l, "switch "+tag+" }") && ieiHelperOK(c, fnName)
		}
		return false
	}
	c.Check(canon(best, loops[best]), RL, "nasMessage:canonical-loop", token.NoPos, best, "the common decode loop is not `for buffer.Len() > 0 { read ieiN; normalise half-octet IEIs; switch }`: %s", best)
	for l, ns := range loops {
		if l == best || canon(l, ns) {
			continue
		}
		sort.Strings(ns)
		for _, n := range ns {
			c.Fail(RL, "nasMessage."+n+":loop", m.Msgs[n].DecPos, "Decode%s deviates from its %d siblings: `%s` (siblings: `%s`)", n, bestN, l, best)
		}
	}
	if len(loops) == 1 {
		c.Ok(RL, "nasMessage:all-45-loops-identical", token.NoPos, fmt.Sprintf("%d decoders share one loop preamble", bestN))
	}
}

// ---------------------------------------------------------------- R8.fresh
// The encoded bytes belong to the caller: PlainNasEncode returns the contents of a
// buffer created by this very call and kept by nobody else. A pooled, cached or
// package-level buffer would make an earlier result change when the next message is
// encoded (the bytes of message A are no longer the encoding of A).
func r8fresh(c *core.Ctx) {
	const R = "R8.fresh"
	c.Rule(R, "PlainNasEncode returns the bytes of a buffer allocated by the same call and retained nowhere else")
	fn := mustFunc(c, pNas, "Message.PlainNasEncode")
	p := core.NewPather(fn)
	n := 0
	// result values, through the result slots a function with defer spills them to
	type resVal struct {
		v   ssa.Value
		pos token.Pos
	}
	var results []resVal
	for _, b := range fn.Blocks {
		for _, in := range b.Instrs {
			r, ok := in.(*ssa.Return)
			if !ok || len(r.Results) != 2 {
				continue
			}
			v := r.Results[0]
			if ld, isLoad := v.(*ssa.UnOp); isLoad && ld.Op == token.MUL {
				if slot, isAlloc := ld.X.(*ssa.Alloc); isAlloc {
					for _, ref := range core.Referrers(slot) {
						if st, isSt := ref.(*ssa.Store); isSt && st.Addr == ssa.Value(slot) {
							dup := false
							for _, o := range results {
								if o.v == st.Val {
									dup = true
								}
							}
							if !dup {
								results = append(results, resVal{st.Val, st.Pos()})
							}
						}
					}
					continue
				}
			}
			results = append(results, resVal{v, r.Pos()})
		}
	}
	for _, r := range results {
		{
			v := r.v
			if k, isConst := v.(*ssa.Const); isConst && k.Value == nil {
				continue
			}
			n++
			key := fmt.Sprintf("nas.Message.PlainNasEncode:return#%d", n)
			call, isCall := v.(*ssa.Call)
			if !isCall || core.CalleeName(&call.Call) != "bytes.Buffer.Bytes" {
				c.SoftUndecided("PlainNasEncode: result %s is not the contents of a bytes.Buffer", clip(p.Path(v)))
				continue
			}
			buf := call.Call.Args[0]
			al, isAlloc := buf.(*ssa.Alloc)
			if nb, isNB := buf.(*ssa.Call); isNB && core.CalleeName(&nb.Call) == "bytes.NewBuffer" {
				// bytes.NewBuffer(nil) / bytes.NewBuffer(make(...)) is as fresh as new(bytes.Buffer)
				arg := nb.Call.Args[0]
				_, isMake := arg.(*ssa.MakeSlice)
				if sl, isSl := arg.(*ssa.Slice); isSl {
					_, isMake = sl.X.(*ssa.Alloc) // make with constant size: a local array
				}
				k, isConst := arg.(*ssa.Const)
				if isMake || (isConst && k.Value == nil) {
					c.Ok(R, key, r.pos, "fresh bytes.NewBuffer")
					continue
				}
			}
			if !isAlloc {
				if strings.Contains(p.Path(buf), "sync.Pool") || strings.Contains(p.Path(buf), "global:") || strings.HasPrefix(p.Path(buf), "p0") {
				} else {
					c.SoftUndecided("PlainNasEncode: origin of the result buffer not recognised (%s)", clip(p.Path(buf)))
					continue
				}
				c.Fail(R, key, r.pos, "the returned bytes are the contents of %s, which is not a buffer created by this call: a later encode overwrites an earlier result", clip(p.Path(buf)))
				continue
			}
			bad := ""
			for _, ref := range core.Referrers(al) {
				ci, isCI := ref.(ssa.CallInstruction)
				if !isCI {
					if st, isSt := ref.(*ssa.Store); isSt && st.Val == ssa.Value(al) {
						bad = "stored to " + p.Path(st.Addr)
					}
					continue
				}
				name := core.CalleeName(ci.Common())
				if strings.HasPrefix(name, "bytes.") || strings.HasPrefix(name, "encoding/binary.") || strings.HasPrefix(name, pNas+".") || strings.HasPrefix(name, pNasM+".") {
					continue
				}
				if ci.Common().StaticCallee() == nil && !ci.Common().IsInvoke() {
					// a call through a local function value: fine when everything it can hold is an encoder
					ts := funcValueTargets(ci.Common().Value, 0)
					okT := len(ts) > 0
					for _, t := range ts {
						if !strings.HasPrefix(t, pNas+".") && !strings.HasPrefix(t, pNasM+".") {
							okT = false
						}
					}
					if okT {
						continue
					}
					name = "a function value (" + strings.Join(ts, ", ") + ")"
				}
				bad = "handed to " + shortName(name)
			}
			c.Check(bad == "", R, key, r.pos, "fresh buffer, used only by the encoders", "the buffer whose bytes are returned is %s: it outlives the call and its storage is reused, so an earlier result changes when a later message is encoded", bad)
		}
	}
	if n == 0 {
		c.SoftUndecided("PlainNasEncode: no return of encoded bytes found")
	}
}

// ieiHelperOK decides, on the abstract evaluator, that the helper reads exactly one octet r from the
// buffer and returns (r, t) with t = r>>4 when bit 8 of r is set (half-octet IEI) and t = r otherwise.
func ieiHelperOK(c *core.Ctx, name string) bool {
	fn := c.P.Func(pNasM, name)
	if fn == nil || len(fn.Params) != 1 {
		return false
	}
	ex := core.NewExec()
	ex.Merge = true
	reads := 0
	ex.OnCall = func(ev *core.AEvent, _ *core.AMem) (core.AVal, bool) {
		if ev.Callee == "encoding/binary.Read" || strings.HasPrefix(ev.Callee, "bytes.Buffer.") {
			reads++
		}
		return core.AVal{}, false
	}
	outs, err := ex.Run(fn, core.DefaultArgs(fn), nil)
	if err != nil || len(outs) != 1 || len(outs[0].Ret) != 2 || len(ex.Unsound) > 0 || reads != 1 {
		return false
	}
	r, t := outs[0].Ret[0], outs[0].Ret[1]
	if r.K != core.AInt || t.K != core.AInt || len(r.Bits) != 8 || len(t.Bits) != 8 || r.Bits[0].Kind != core.BSrc {
		return false
	}
	src := r.Bits[0].Src
	if !r.Bits.IsCopy(7, 0, src, 0) || !(strings.Contains(src, "@read") || strings.Contains(src, "bytes.Buffer.ReadByte(")) {
		return false
	}
	// t.i = r7 ? r.(4+i) : r.i for i < 4;  t.i = r7 ? 0 : r.i for i >= 4
	top := core.Bit{Kind: core.BSrc, Src: src, Idx: 7}
	for i := 0; i < 8; i++ {
		lo := core.Bit{Kind: core.BSrc, Src: src, Idx: i}
		hi := core.Bit{Kind: core.BZero}
		if i < 4 {
			hi = core.Bit{Kind: core.BSrc, Src: src, Idx: 4 + i}
		}
		if t.Bits[i] != core.IteBit(top, hi, lo) {
			return false
		}
	}
	return true
}

// funcValueTargets: the functions a local function value can be (closures, bound method values,
// function constants, merged by phis); nil when something else can flow in.
func funcValueTargets(v ssa.Value, depth int) []string {
	if depth > 4 {
		return nil
	}
	switch x := v.(type) {
	case *ssa.MakeClosure:
		if f, ok := x.Fn.(*ssa.Function); ok {
			return []string{strings.TrimSuffix(core.FuncName(f), "$bound")}
		}
	case *ssa.Function:
		return []string{core.FuncName(x)}
	case *ssa.Phi:
		var out []string
		for _, e := range x.Edges {
			if k, isK := e.(*ssa.Const); isK && k.Value == nil {
				continue
			}
			ts := funcValueTargets(e, depth+1)
			if ts == nil {
				return nil
			}
			out = append(out, ts...)
		}
		return out
	case *ssa.ChangeType:
		return funcValueTargets(x.X, depth+1)
	}
	return nil
}
