package rules

import (
	"go/token"
	"strconv"
	"strings"

	"golang.org/x/tools/go/ssa"

	"stgverif/internal/core"
)

// String templates: a string-valued SSA expression rendered as a sequence of
// literal pieces and argument holes, whichever way it is spelt — `"a" + x + "b"`,
// fmt.Sprintf("a%sb", x), or a same-package helper returning either. A hole
// records the access path of the argument (relative to the function the template
// was asked for: callee parameters are substituted by the call's arguments) and
// the zero-pad width of a %0Ns verb.

type strTok struct {
	lit  string
	arg  string // access path; "" for a literal piece
	pad0 int    // %0Ns: left-padded with zeros to N
	pad  int    // %Ns: left-padded with blanks to N
}

// strTemplate returns nil when the expression is not a template of the forms above
// (e.g. a merge of alternatives: the caller deals with those).
func strTemplate(p *core.Pather, v ssa.Value, depth int, env map[*ssa.Parameter][]strTok) []strTok {
	if depth > 4 {
		return nil
	}
	switch x := v.(type) {
	case *ssa.Const:
		if s, ok := core.ConstString(x); ok {
			return []strTok{{lit: s}}
		}
		return nil
	case *ssa.Parameter:
		if env != nil {
			if t, ok := env[x]; ok {
				return t
			}
		}
		return []strTok{{arg: p.Path(x)}}
	case *ssa.BinOp:
		if x.Op != token.ADD {
			return nil
		}
		l := strTemplate(p, x.X, depth, env)
		r := strTemplate(p, x.Y, depth, env)
		if l == nil || r == nil {
			return nil
		}
		return mergeLits(append(append([]strTok{}, l...), r...))
	case *ssa.MakeInterface:
		return strTemplate(p, x.X, depth, env)
	case *ssa.ChangeType:
		return strTemplate(p, x.X, depth, env)
	case *ssa.Phi:
		return nil
	case *ssa.Call:
		name := core.CalleeName(&x.Call)
		if name == "fmt.Sprintf" && len(x.Call.Args) == 2 {
			format, ok := core.ConstString(x.Call.Args[0])
			if !ok {
				return nil
			}
			var args []ssa.Value
			if sl, isSl := x.Call.Args[1].(*ssa.Slice); isSl {
				if a, isA := sl.X.(*ssa.Alloc); isA {
					if elems, isLit := core.ArrayLitElems(a); isLit {
						args = elems
					}
				}
			}
			return sprintfTemplate(p, format, args, depth, env)
		}
		callee := x.Call.StaticCallee()
		if callee == nil || len(callee.Blocks) == 0 || callee.Pkg != p.Fn().Pkg {
			return []strTok{{arg: p.Path(x)}}
		}
		// same-package helper with a single return of one string
		var ret *ssa.Return
		for _, b := range callee.Blocks {
			for _, in := range b.Instrs {
				if r, ok := in.(*ssa.Return); ok {
					if ret != nil {
						return []strTok{{arg: p.Path(x)}}
					}
					ret = r
				}
			}
		}
		if ret == nil || len(ret.Results) != 1 {
			return []strTok{{arg: p.Path(x)}}
		}
		sub := map[*ssa.Parameter][]strTok{}
		for i, prm := range callee.Params {
			if i < len(x.Call.Args) {
				t := strTemplate(p, x.Call.Args[i], depth+1, env)
				if t == nil {
					t = []strTok{{arg: p.Path(x.Call.Args[i])}}
				}
				sub[prm] = t
			}
		}
		cp := core.NewPather(callee)
		if t := strTemplate(cp, ret.Results[0], depth+1, sub); t != nil {
			return t
		}
		return []strTok{{arg: p.Path(x)}}
	}
	return []strTok{{arg: p.Path(v)}}
}

func sprintfTemplate(p *core.Pather, format string, args []ssa.Value, depth int, env map[*ssa.Parameter][]strTok) []strTok {
	var out []strTok
	ai := 0
	for i := 0; i < len(format); {
		if format[i] != '%' {
			j := strings.IndexByte(format[i:], '%')
			if j < 0 {
				j = len(format) - i
			}
			out = append(out, strTok{lit: format[i : i+j]})
			i += j
			continue
		}
		// %[0][width](s|v|d)  or %%
		j := i + 1
		if j < len(format) && format[j] == '%' {
			out = append(out, strTok{lit: "%"})
			i = j + 1
			continue
		}
		zero := false
		if j < len(format) && format[j] == '0' {
			zero = true
			j++
		}
		w := 0
		for j < len(format) && format[j] >= '0' && format[j] <= '9' {
			w = w*10 + int(format[j]-'0')
			j++
		}
		if j >= len(format) || !strings.ContainsRune("svd", rune(format[j])) || ai >= len(args) || args[ai] == nil {
			return nil
		}
		t := strTemplate(p, args[ai], depth+1, env)
		ai++
		if t == nil {
			return nil
		}
		if w > 0 {
			if len(t) != 1 || t[0].arg == "" {
				return nil // width applied to a composite piece: not modelled
			}
			h := t[0]
			if zero {
				h.pad0 = w
			} else {
				h.pad = w
			}
			t = []strTok{h}
		}
		out = append(out, t...)
		i = j + 1
	}
	if ai != len(args) {
		return nil
	}
	return mergeLits(out)
}

func mergeLits(in []strTok) []strTok {
	var out []strTok
	for _, t := range in {
		if t.arg == "" && len(out) > 0 && out[len(out)-1].arg == "" {
			out[len(out)-1].lit += t.lit
			continue
		}
		out = append(out, t)
	}
	return out
}

func tmplString(t []strTok) string {
	var sb strings.Builder
	for _, k := range t {
		if k.arg == "" {
			sb.WriteString(strconv.Quote(k.lit))
		} else {
			sb.WriteString("{" + k.arg)
			if k.pad0 > 0 {
				sb.WriteString(":0" + strconv.Itoa(k.pad0))
			}
			if k.pad > 0 {
				sb.WriteString(":" + strconv.Itoa(k.pad))
			}
			sb.WriteString("}")
		}
	}
	return sb.String()
}
