package rules

import (
	"fmt"
	"go/token"
	"go/types"
	"strings"

	"golang.org/x/tools/go/ssa"

	"stgverif/internal/core"
)

// Procedure-driver model shared by C01 and C02: every N2 send of a driver function is
// resolved, through SSA def-use, to the build-and-encode wrapper that produced the bytes,
// the NAS payload handed to it, the security envelope of that payload and the NAS
// constructor underneath.

const (
	fnSctpWrite = "github.com/ishidawataru/sctp.SCTPConn.Write"
	fnSctpRead  = "github.com/ishidawataru/sctp.SCTPConn.Read"
)

type drvNAS struct {
	Protected bool
	Enc       *ssa.Call // EncodeNasPduWithSecurity
	SHT       int64
	SHTConst  bool
	Avail     int // -1 unknown, 0 false, 1 true
	New       int
	Ctor      string // nasTestpacket constructor, "" when unresolved
	CtorCall  *ssa.Call
}

type drvSend struct {
	Write   ssa.CallInstruction
	Wrapper string
	WCall   *ssa.Call
	Roles   []string
	NAS     *drvNAS
	Problem string
}

// callOf strips tuple extraction (component 0) and value-preserving conversions.
func callOf(v ssa.Value) *ssa.Call {
	for i := 0; i < 8; i++ {
		switch x := v.(type) {
		case *ssa.Call:
			return x
		case *ssa.Extract:
			if x.Index != 0 {
				return nil
			}
			v = x.Tuple
		case *ssa.ChangeType:
			v = x.X
		default:
			return nil
		}
	}
	return nil
}

func boolConst(v ssa.Value) int {
	if b, ok := core.ConstBool(v); ok {
		if b {
			return 1
		}
		return 0
	}
	return -1
}

func wrapperRoles(name string) ([]string, bool) {
	for _, w := range wrapSpecs {
		if w.wrapper == name {
			return w.roles, true
		}
	}
	if name == "GetNGSetupRequest" {
		return []string{"", "", "", ""}, true
	}
	return nil, false
}

func resolveNAS(v ssa.Value) (*drvNAS, string) {
	call := callOf(v)
	if call == nil {
		return nil, "the NAS payload is not the direct result of a call"
	}
	n := &drvNAS{Avail: -1, New: -1}
	name := core.CalleeName(call.Common())
	if name == pTglib+".EncodeNasPduWithSecurity" {
		a := call.Common().Args
		n.Protected = true
		n.Enc = call
		n.SHT, n.SHTConst = core.ConstInt(a[2])
		n.Avail, n.New = boolConst(a[3]), boolConst(a[4])
		call = callOf(a[1])
		if call == nil {
			return n, "the message handed to EncodeNasPduWithSecurity is not the direct result of a NAS constructor"
		}
		name = core.CalleeName(call.Common())
	}
	if strings.HasPrefix(name, pNasTP+".") {
		n.Ctor = strings.TrimPrefix(name, pNasTP+".")
		n.CtorCall = call
		return n, ""
	}
	return n, "the NAS message is produced by " + name + ", not by a nasTestpacket constructor"
}

func resolveSend(w ssa.CallInstruction) *drvSend {
	s := &drvSend{Write: w}
	args := w.Common().Args
	call := callOf(args[len(args)-1])
	if call == nil {
		s.Problem = "the written buffer is not the direct result of a build-and-encode wrapper"
		return s
	}
	name := core.CalleeName(call.Common())
	if !strings.HasPrefix(name, pTglib+".Get") {
		s.Problem = "the written buffer is produced by " + name
		return s
	}
	s.Wrapper = strings.TrimPrefix(name, pTglib+".")
	s.WCall = call
	roles, ok := wrapperRoles(s.Wrapper)
	if !ok {
		s.Problem = "no parameter roles known for " + s.Wrapper
		return s
	}
	s.Roles = roles
	for i, r := range roles {
		if r == "nas" && i < len(call.Common().Args) {
			s.NAS, s.Problem = resolveNAS(call.Common().Args[i])
		}
	}
	return s
}

func tf(v int) string {
	switch v {
	case 0:
		return "F"
	case 1:
		return "T"
	}
	return "?"
}

func (s *drvSend) Label() string {
	if s.Wrapper == "" {
		return "send:?"
	}
	l := "send:" + strings.TrimPrefix(s.Wrapper, "Get")
	if s.NAS != nil {
		ctor := s.NAS.Ctor
		if ctor == "" {
			ctor = "?"
		}
		if s.NAS.Protected {
			sht := "?"
			if s.NAS.SHTConst {
				sht = fmt.Sprint(s.NAS.SHT)
			}
			l += fmt.Sprintf("[prot(%s,%s,%s):%s]", sht, tf(s.NAS.Avail), tf(s.NAS.New), ctor)
		} else {
			l += "[plain:" + ctor + "]"
		}
	}
	return l
}

// ueParamIndex: the parameter of type *tglib.RanUeContext.
func ueParamIndex(fn *ssa.Function) int {
	for i, p := range fn.Params {
		if derefNamed(p.Type()) == pTglib+".RanUeContext" {
			return i
		}
	}
	return -1
}

type drvModel struct {
	fn    *ssa.Function
	p     *core.Pather
	ue    string // "pN"
	sends []*drvSend
	paths [][]string
	ok    bool
}

// driverModel enumerates the entry→return paths of a driver with the events
// send:<label>, recv, derive, setamf.
func driverModel(c *core.Ctx, fn *ssa.Function) *drvModel {
	m := &drvModel{fn: fn, p: core.NewPather(fn)}
	if i := ueParamIndex(fn); i >= 0 {
		m.ue = fmt.Sprintf("p%d", i)
	}
	labels := map[ssa.Instruction]string{}
	for _, b := range fn.Blocks {
		for _, in := range b.Instrs {
			switch x := in.(type) {
			case ssa.CallInstruction:
				switch core.CalleeName(x.Common()) {
				case fnSctpWrite:
					s := resolveSend(x)
					m.sends = append(m.sends, s)
					labels[in] = s.Label()
				case fnSctpRead:
					labels[in] = "recv"
				case pTglib + ".RanUeContext.DeriveRESstarAndSetKey":
					labels[in] = "derive"
				}
			case *ssa.Store:
				if isFieldOfUE(x.Addr, "AmfUeNgapId") {
					labels[in] = "setamf"
				}
			}
		}
	}
	m.paths, m.ok = core.EventPaths(fn, func(in ssa.Instruction) string { return labels[in] }, 1, 20000)
	c.Analysed(core.FuncName(fn))
	c.Sites(len(m.sends))
	return m
}

// expectedSend is one step of a procedure script: the label of the send and the minimum
// number of receives since the previous send.
type expectedSend struct {
	label   string
	minRecv int
	why     string
}

// checkScript compares every path of the driver with the script: the sends are exactly the
// scripted ones, in order, with at least minRecv receives before each.
func checkScript(c *core.Ctx, R string, m *drvModel, script []expectedSend) {
	name := shortName(core.FuncName(m.fn))
	if !m.ok {
		c.SoftUndecided("%s has too many paths to enumerate", name)
		return
	}
	if len(m.paths) == 0 {
		c.Fail(R, name+":script", m.fn.Pos(), "%s has no path to a return", name)
		return
	}
	type fail struct{ step int; msg string }
	var fails []fail
	for _, path := range m.paths {
		step, recv := 0, 0
		for _, e := range path {
			switch {
			case e == "recv":
				recv++
			case strings.HasPrefix(e, "send:"):
				if step >= len(script) {
					fails = append(fails, fail{step, "unexpected extra message " + e + " after the scripted ones"})
					step++
					continue
				}
				x := script[step]
				if !labelMatches(x.label, e) {
					fails = append(fails, fail{step, fmt.Sprintf("step %d sends %s, the procedure requires %s (%s)", step+1, e, x.label, x.why)})
				} else if recv < x.minRecv {
					fails = append(fails, fail{step, fmt.Sprintf("step %d (%s) is sent after %d receive(s) since the previous send; it answers a message of the AMF and needs %d", step+1, e, recv, x.minRecv)})
				}
				step++
				recv = 0
			}
		}
		if step < len(script) {
			fails = append(fails, fail{step, fmt.Sprintf("a path returns after %d of %d messages: %s is never sent", step, len(script), script[step].label)})
		}
	}
	bad := map[int]string{}
	for _, f := range fails {
		if _, seen := bad[f.step]; !seen {
			bad[f.step] = f.msg
		}
	}
	for i, x := range script {
		key := fmt.Sprintf("%s:step%d:%s", name, i+1, x.label)
		if msg, isBad := bad[i]; isBad {
			c.Fail(R, key, m.fn.Pos(), "%s", msg)
		} else {
			c.Ok(R, key, m.fn.Pos(), fmt.Sprintf("on all %d paths; >= %d receive(s) before", len(m.paths), x.minRecv))
		}
	}
	for i, msg := range bad {
		if i >= len(script) {
			c.Fail(R, fmt.Sprintf("%s:step%d:extra", name, i+1), m.fn.Pos(), "%s", msg)
		}
	}
}

// labelMatches: the script may leave the header type open as "1|2".
func labelMatches(want, got string) bool {
	if want == got {
		return true
	}
	if i := strings.Index(want, "prot(1|2,"); i >= 0 {
		return got == strings.Replace(want, "prot(1|2,", "prot(1,", 1) || got == strings.Replace(want, "prot(1|2,", "prot(2,", 1)
	}
	return false
}

// checkIDs: every wrapper call of the driver receives ue.AmfUeNgapId / ue.RanUeNgapId of the
// driver's own UE in the parameter of that role, and EncodeNasPduWithSecurity the same UE.
func checkIDs(c *core.Ctx, R string, m *drvModel) {
	name := shortName(core.FuncName(m.fn))
	ord := ordinals{}
	for _, s := range m.sends {
		if s.WCall == nil {
			c.Fail(R, ord.next(name+":send:unresolved"), s.Write.Pos(), "%s: %s", name, s.Problem)
			continue
		}
		key := ord.next(name + ":" + s.Wrapper)
		var errs []string
		for i, r := range s.Roles {
			if i >= len(s.WCall.Common().Args) {
				break
			}
			got := m.p.Path(s.WCall.Common().Args[i])
			switch r {
			case "amf":
				if got != m.ue+".AmfUeNgapId" {
					errs = append(errs, fmt.Sprintf("AMF-UE-NGAP-ID argument is %s, must be the UE's AmfUeNgapId", clip(got)))
				}
			case "ran":
				if got != m.ue+".RanUeNgapId" {
					errs = append(errs, fmt.Sprintf("RAN-UE-NGAP-ID argument is %s, must be the UE's RanUeNgapId", clip(got)))
				}
			}
		}
		if s.NAS != nil && s.NAS.Enc != nil {
			if got := m.p.Path(s.NAS.Enc.Common().Args[0]); got != m.ue {
				errs = append(errs, fmt.Sprintf("the NAS message is protected with the context of %s, not of the driver's UE", clip(got)))
			}
		}
		if s.Problem != "" {
			errs = append(errs, s.Problem)
		}
		c.Check(len(errs) == 0, R, key, s.WCall.Pos(), "identifiers of the driver's own UE in their roles", "%s: %s", name, strings.Join(errs, "; "))
	}
}

// positional accesses into the ProtocolIEs list of a received message.
type posAccess struct {
	message string
	index   int64
	field   string
	pos     token.Pos
	path    string
}

func positionalAccesses(m *drvModel) []posAccess {
	var out []posAccess
	seen := map[string]bool{}
	for _, b := range m.fn.Blocks {
		for _, in := range b.Instrs {
			var idx ssa.Value
			var x ssa.Value
			switch v := in.(type) {
			case *ssa.IndexAddr:
				idx, x = v.Index, v.X
			case *ssa.Index:
				idx, x = v.Index, v.X
			default:
				continue
			}
			xp := m.p.Path(x)
			if !strings.HasSuffix(xp, ".ProtocolIEs.List") {
				continue
			}
			k, isK := core.ConstInt(idx)
			idxStr := fmt.Sprint(k)
			if !isK {
				k = -1
				idxStr = m.p.Path(idx)
			}
			parts := strings.Split(strings.TrimSuffix(xp, ".ProtocolIEs.List"), ".")
			msg := parts[len(parts)-1]
			// which alternative is read from the element
			field := ""
			val := in.(ssa.Value)
			for _, r := range core.Referrers(val) {
				rp := ""
				if rv, ok := r.(ssa.Value); ok {
					rp = m.p.Path(rv)
				}
				if i := strings.Index(rp, ".ProtocolIEs.List["+idxStr+"].Value."); i >= 0 {
					rest := rp[i+len(".ProtocolIEs.List["+idxStr+"].Value."):]
					if j := strings.IndexAny(rest, ".["); j >= 0 {
						rest = rest[:j]
					}
					field = rest
				}
			}
			if field == "" {
				// search all values of the function for a longer path through this element
				pre := xp + "[" + idxStr + "].Value."
				for _, b2 := range m.fn.Blocks {
					for _, in2 := range b2.Instrs {
						if v2, ok := in2.(ssa.Value); ok {
							if p2 := m.p.Path(v2); strings.HasPrefix(p2, pre) {
								rest := p2[len(pre):]
								if j := strings.IndexAny(rest, ".["); j >= 0 {
									rest = rest[:j]
								}
								field = rest
							}
						}
					}
				}
			}
			key := fmt.Sprintf("%s[%d].%s", msg, k, field)
			if seen[key] {
				continue
			}
			seen[key] = true
			out = append(out, posAccess{msg, k, field, in.Pos(), xp})
		}
	}
	return out
}

// T-38413-IE (received messages): the IEs in table order with their presence, for the
// messages the drivers index positionally.
var t38413Recv = map[string][]ieRow{
	"DownlinkNASTransport": {{"AMFUENGAPID", true, 0}, {"RANUENGAPID", true, 0}, {"OldAMF", false, 0}, {"RANPagingPriority", false, 1}, {"NASPDU", true, 0},
		{"MobilityRestrictionList", false, 1}, {"IndexToRFSP", false, 1}, {"UEAggregateMaximumBitRate", false, 1}, {"AllowedNSSAI", false, 0}},
	"PDUSessionResourceSetupRequest": {{"AMFUENGAPID", true, 0}, {"RANUENGAPID", true, 0}, {"RANPagingPriority", false, 1}, {"NASPDU", false, 0},
		{"PDUSessionResourceSetupListSUReq", true, 0}, {"UEAggregateMaximumBitRate", false, 1}},
	"InitialContextSetupRequest": {{"AMFUENGAPID", true, 0}, {"RANUENGAPID", true, 0}, {"OldAMF", false, 0}, {"UEAggregateMaximumBitRate", false, 0}},
}

// checkPositional: List[k] read as alternative F is justified when the first k+1 IEs of the
// message are mandatory and the k-th is F (TS 38.413 10.3.6: IEs appear in table order).
func checkPositional(c *core.Ctx, R string, m *drvModel) int {
	name := shortName(core.FuncName(m.fn))
	n := 0
	for _, a := range positionalAccesses(m) {
		n++
		key := fmt.Sprintf("%s:%s.ProtocolIEs.List[%d].%s", name, a.message, a.index, a.field)
		rows, ok := t38413Recv[a.message]
		if !ok {
			c.SoftUndecided("%s indexes the IE list of %s, for which no IE table is compiled in", name, a.message)
			continue
		}
		if a.index < 0 {
			// not positional when the element is selected by its IE id
			if k, ok := selectedByID(m, a); ok {
				want := int64(-1)
				if s := schemaOf(c); s != nil {
					if vt := s.Types[a.message+"IEsValue"]; vt != nil {
						for _, f := range vt.Fields {
							if f.Name == a.field && f.Tag.RefValue != nil {
								want = *f.Tag.RefValue
							}
						}
					}
				}
				c.Check(k == want, R, key, a.pos, fmt.Sprintf("selected by IE id %d", k), "%s reads alternative %s of the IE whose id is %d; %s has id %d", name, a.field, k, a.field, want)
				continue
			}
			c.SoftUndecided("%s indexes the IE list of %s with a non-constant index and no recognised id test", name, a.message)
			continue
		}
		okPos := int(a.index) < len(rows) && rows[a.index].name == a.field
		for i := int64(0); okPos && i <= a.index; i++ {
			if !rows[i].mand {
				okPos = false
			}
		}
		var optional []string
		for _, r := range rows {
			if r.name == a.field {
				break
			}
			if !r.mand {
				optional = append(optional, r.name)
			}
		}
		c.Check(okPos, R, key, a.pos, "the first IEs of the message are mandatory and in this order", "%s reads IE %d of a received %s as %s, but that position holds %s only when the AMF omits the optional IEs %v (TS 38.413 9.2); with one of them present the alternative read is nil", name, a.index, a.message, a.field, a.field, optional)
	}
	return n
}

func namedTypeOf(t types.Type) string { return derefNamed(t) }

var schemaCache = map[*core.Ctx]*schema{}

func schemaOf(c *core.Ctx) *schema {
	if s, ok := schemaCache[c]; ok {
		return s
	}
	s := buildSchema(c)
	schemaCache[c] = s
	return s
}

// selectedByID: the reads through List[idx] are dominated by the true edge of
// `List[idx].Id.Value == K`.
func selectedByID(m *drvModel, a posAccess) (int64, bool) {
	for _, b := range m.fn.Blocks {
		iff, ok := b.Instrs[len(b.Instrs)-1].(*ssa.If)
		if !ok {
			continue
		}
		bo, ok := iff.Cond.(*ssa.BinOp)
		if !ok || bo.Op != token.EQL {
			continue
		}
		k, isK := core.ConstInt(bo.Y)
		lhs := m.p.Path(bo.X)
		if !isK || !strings.HasPrefix(lhs, a.path+"[") || !strings.HasSuffix(lhs, "].Id.Value") {
			continue
		}
		elem := strings.TrimSuffix(lhs, ".Id.Value")
		t := b.Succs[0]
		if len(t.Preds) != 1 {
			continue
		}
		// every read of <elem>.Value.<field> sits under the true edge
		all, any := true, false
		for _, b2 := range m.fn.Blocks {
			for _, in := range b2.Instrs {
				v, isV := in.(ssa.Value)
				if !isV {
					continue
				}
				if _, isFA := in.(*ssa.FieldAddr); !isFA {
					if _, isF := in.(*ssa.Field); !isF {
						continue
					}
				}
				if pp := m.p.Path(v); pp == elem+".Value."+a.field {
					any = true
					if !t.Dominates(b2) {
						all = false
					}
				}
			}
		}
		if any && all {
			return k, true
		}
	}
	return 0, false
}

// guardedOnlyByShape: every branch that decides whether st runs, between the point `from`
// and st, is a nil test on a prefix of the stored value's access path (i.e. "the answer has
// the expected type"), so on the expected answer the store always happens.
func guardedOnlyByShape(p *core.Pather, from ssa.Instruction, st *ssa.Store) bool {
	vp := p.Path(st.Val)
	b := st.Block()
	for steps := 0; steps < 16; steps++ {
		if b == from.Block() || b.Dominates(from.Block()) {
			return true
		}
		d := b.Idom()
		if d == nil {
			return false
		}
		if iff, ok := d.Instrs[len(d.Instrs)-1].(*ssa.If); ok && !postDominatedJoin(d, b) {
			bo, isBo := iff.Cond.(*ssa.BinOp)
			if !isBo || bo.Op != token.NEQ || d.Succs[0] != b && !d.Succs[0].Dominates(b) {
				return false
			}
			k, isK := bo.Y.(*ssa.Const)
			if !isK || !k.IsNil() || !strings.HasPrefix(vp, p.Path(bo.X)) {
				return false
			}
		}
		b = d
	}
	return false
}

// postDominatedJoin: b is reached from d whichever way d's branch goes (b is the join).
func postDominatedJoin(d, b *ssa.BasicBlock) bool {
	if len(d.Succs) != 2 {
		return true
	}
	return (d.Succs[0] == b || core.Reaches(d.Succs[0], b)) && (d.Succs[1] == b || core.Reaches(d.Succs[1], b)) && !d.Succs[0].Dominates(b) && !d.Succs[1].Dominates(b)
}

// include runs the rule sets of component properties inside a composite property check
// (C01, C02 are conjunctions over a whole exchange); explanation and assumptions of the
// composite are kept, the assumptions of the components are appended.
func include(c *core.Ctx, parts ...string) {
	expl, assume := c.Explanation, c.Assumptions
	for _, id := range parts {
		if !c.Once("property:" + id) {
			continue
		}
		f := Registry[id]
		if f == nil {
			c.Undecided("component property %s is not registered", id)
		}
		c.Assumptions = nil
		f(c)
		for _, a := range c.Assumptions {
			assume = append(assume, id+": "+a)
		}
	}
	c.Explanation, c.Assumptions = expl, assume
}
