package core

import (
	"golang.org/x/tools/go/callgraph"
	"golang.org/x/tools/go/callgraph/cha"
	"golang.org/x/tools/go/callgraph/vta"
	"golang.org/x/tools/go/ssa"
	"golang.org/x/tools/go/ssa/ssautil"
)

// CallGraph builds (once) the whole-program call graph: VTA refined from CHA, the
// most precise graph available with x/tools v0.29 (no pointer analysis).
func (p *Program) CallGraph() *callgraph.Graph {
	if p.cg == nil {
		all := ssautil.AllFunctions(p.SSA)
		p.cg = vta.CallGraph(all, cha.CallGraph(p.SSA))
		p.cg.DeleteSyntheticNodes()
	}
	return p.cg
}

// Reachable returns every function reachable from the entries in the VTA graph.
func (p *Program) Reachable(entries ...*ssa.Function) map[*ssa.Function]bool {
	g := p.CallGraph()
	seen := map[*ssa.Function]bool{}
	var st []*ssa.Function
	for _, e := range entries {
		if e != nil {
			st = append(st, e)
		}
	}
	for len(st) > 0 {
		f := st[len(st)-1]
		st = st[:len(st)-1]
		if seen[f] {
			continue
		}
		seen[f] = true
		if n := g.Nodes[f]; n != nil {
			for _, e := range n.Out {
				if e.Callee != nil && e.Callee.Func != nil && !seen[e.Callee.Func] {
					st = append(st, e.Callee.Func)
				}
			}
		}
		for _, a := range f.AnonFuncs {
			st = append(st, a)
		}
	}
	return seen
}
