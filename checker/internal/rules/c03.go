package rules

import (
	"fmt"
	"go/token"
	"go/types"
	"regexp"
	"sort"
	"strings"

	"golang.org/x/tools/go/ssa"

	"stgverif/internal/core"
)

func init() { Registry["C03"] = c03; Registry["C04"] = c04 }

func ngapEntries(c *core.Ctx) []*ssa.Function {
	return []*ssa.Function{mustFunc(c, pNgap, "Encoder"), mustFunc(c, pNgap, "Decoder"),
		mustFunc(c, pAper, "MarshalWithParams"), mustFunc(c, pAper, "UnmarshalWithParams")}
}

func c03(c *core.Ctx) map[string]interface{} {
	c.Explanation = "Static check of the inputs and error discipline of the aligned-PER encoder (C03). Decided: (R0.nilglobal) the codec does not dereference a never-initialised package-level pointer on its way (it would panic on every message); (R3.tag) for all structs of ngapType: every aper tag part belongs to the vocabulary the codec parses and its number parses, fields are exported, `optional` sits only on nil-able fields, every CHOICE use site carries valueLB:0,valueUB:n-1 for its n alternatives, ENUMERATED bounds equal the declared enumerators 0..UB, open-type fields name an earlier field, every alternative of an open type has a referenceFieldValue that is unique in its type and equals ProtocolIEID<Field> resp. the procedure code of TS 38.413 9.4.4 for the three message-class containers, <T>Present<Field> constants equal field indices; (R3.schema) every struct of ngapType has exactly the fields, field order, constraint tags and Go types, and every constant (enumerators, Present indices, IE ids, procedure codes) the value, of the frozen TS 38.413 schema table (5630 rows): a widened root, an edited bound, a renumbered enumerator or a moved field changes the encoding of every value of that type and is reported with the row; (R3.types) the tags of the leaf types on the emulator's path equal TS 38.413 9.4.5; (R3.err) in the encoder no error that was created or received is lost: on every path from its creation it is returned or tested, except calls proven infallible (putBitsValue of a constant that fits); (R3.len) the length determinant encoder emits X.691 10.9 forms: one octet 0xxxxxxx up to 127, two octets 10xxxxxx xxxxxxxx up to 16383 (bit provenance), with the same thresholds the decoder uses; (R3.strlen) in the four BIT/OCTET STRING primitives, on every path up to the first length determinant, the count is offset by the lower bound exactly when the size is constrained with ub < 64K and is sent as n itself with the general determinant (X.691 10.9.3.3 / 10.9.3.5), on the encoder and the decoder side; (R3.input) no encoder primitive stores into a byte slice it was handed, the idempotent padding mask of appendBitString excepted: encoding leaves the encoded value unchanged; (R3.underflow) every unsigned `x - c` of the encoder that reaches another primitive (the octets-minus-one length field of large constrained INTEGERs among them) has x >= c on all paths; (R3.int) INTEGER octet counting: constrained ranges above 64K count octets of the non-negative value (shift 8), unconstrained/extended ones of the two's complement value (shift 7); (R3.clone) encoder and decoder agree where they are clones: constrained-whole-number guard chains, octets-of-range loops, length-range guards, SEQUENCE OF bounds and lower-bound handling; (R3.mask) BIT STRING padding bits of the last octet are cleared before they reach the wire; (R3.bits) putBitString and putBitsValue place the bits where the bit stream defines them: for every bit offset 0..7 and every length of 1..33 (putBitsValue: 1..64) bits, with symbolic contents, output stream position p carries input position p - offset, nothing else is set and the offset advances by the length (a finite partition of the primitives' control flow folded on the abstract evaluator, index checks on); (R3.int, on the evaluator) for non-negative values under the constraints 0..2^32-1, 0..2^40-1 and without bounds, the value classes the code distinguishes (shift loops or bits.Len64) are each written with the X.691 number of octets, announced in the length field, and cover the range. (R3.content) appendOctetString, folded for eleven (lower bound, upper bound, length) cases with symbolic octets - fixed, constrained with the length at either bound and inside, lower bound zero with and without contents, semi-constrained, fragment-sized -, ends its output with exactly the octets it was given, in order, octet-aligned. NOT decided: bit patterns of strings longer than 33 bits at a time (the same loop bodies run), negative INTEGERs and extension ranges beyond the form-based part of R3.int, and the composition of the primitives into whole messages beyond the listed rules."
	c.Assumptions = []string{"TS 38.413 constraints were transcribed by hand for the listed leaf types", "reflect is used only on exported fields of exported struct types (checked by R3.tag)"}
	r0nilglobal(c, ngapEntries(c)...)
	s := buildSchema(c)
	r3tag(c, s)
	r3schema(c, s)
	r3types(c, s)
	r3err(c)
	r3len(c)
	r3strlen(c)
	r3input(c)
	r3underflow(c)
	r3int(c)
	r3clone(c)
	r3mask(c)
	r3pure(c)
	r3seqof(c)
	r3octets(c)
	r3bits(c)
	r3content(c)
	return map[string]interface{}{"ngap_types": len(s.Types)}
}

// ---------------------------------------------------------------- R3.tag
func r3tag(c *core.Ctx, s *schema) {
	const R = "R3.tag"
	c.Rule(R, "ngapType: tag vocabulary, exported fields, optional on nil-able fields, CHOICE/ENUMERATED bounds, open-type references, referenceFieldValue = IE id / procedure code, Present constants = field indices")
	if len(s.Types) < 1200 {
		c.Undecided("only %d struct types found in ngapType (expected about 1431)", len(s.Types))
	}
	procByMsg := map[string]int64{}
	for _, p := range t38413Proc {
		for _, m := range []string{p.Initiating, p.Successful, p.Unsuccess} {
			if m != "" {
				procByMsg[m] = p.Code
			}
		}
		if v, ok := s.Consts["ProcedureCode"+p.Name]; !ok || v != p.Code {
			c.Fail(R, "ngapType.ProcedureCode"+p.Name, token.NoPos, "procedure code of %s must be %d (TS 38.413 9.4.7), constant is %d (present=%v)", p.Name, p.Code, v, ok)
		}
	}
	nStruct, nChoiceUse, nEnum, nOpen, nAlt, nBad := 0, 0, 0, 0, 0, 0
	fail := func(key string, pos token.Pos, format string, a ...interface{}) {
		nBad++
		c.Fail(R, key, pos, format, a...)
	}
	openValueTypes := map[string]bool{} // struct types used under openType
	for _, n := range s.Order {
		t := s.Types[n]
		for _, f := range t.Fields {
			if f.Tag.OpenType {
				if e := s.elemStruct(f.Type); e != nil {
					openValueTypes[e.Name] = true
				}
			}
		}
	}
	for _, n := range s.Order {
		t := s.Types[n]
		nStruct++
		for _, f := range t.Fields {
			key := "ngapType." + n + "." + f.Name
			if len(f.Tag.BadParts) > 0 {
				fail(key+":tag-vocabulary", f.Pos, "tag part(s) %v are not understood by the codec (they are silently ignored, so the constraint is lost)", f.Tag.BadParts)
			}
			if !f.Exported {
				fail(key+":exported", f.Pos, "unexported field: the codec refuses structs with unexported fields")
			}
			if f.Tag.Optional && !nilable(f.Type) {
				fail(key+":optional", f.Pos, "`optional` on a field of type %s: the encoder calls IsNil on it, which panics for non-nil-able kinds", f.Type)
			}
			// CHOICE use sites (not open types, not the alternatives list itself)
			if e := s.elemStruct(f.Type); e != nil && e.IsChoice && !f.Tag.OpenType && !openValueTypes[e.Name] {
				nChoiceUse++
				alts := int64(len(e.Fields) - 1)
				if e.Name == "PrivateIEID" {
					c.Except(R, key+":choice-bounds", f.Pos, "PrivateIEID CHOICE without bounds: NGAP defines no private IE, the message has no constraint-satisfying value in this library")
				} else if f.Tag.ValueLB == nil || f.Tag.ValueUB == nil || *f.Tag.ValueLB != 0 || *f.Tag.ValueUB != alts-1 {
					fail(key+":choice-bounds", f.Pos, "CHOICE %s has %d alternatives: its use site needs valueLB:0,valueUB:%d; tag is %q", e.Name, alts, alts-1, f.Tag.Raw)
				}
			}
			// open type field
			if f.Tag.OpenType {
				nOpen++
				found := false
				for _, g := range t.Fields[:f.Index] {
					if g.Name == f.Tag.RefName {
						found = true
					}
				}
				if !found {
					fail(key+":open-type-reference", f.Pos, "open type refers to field %q, which is not an earlier field of %s", f.Tag.RefName, n)
				}
			}
			// ENUMERATED
			if isAperNamed(f.Type, "Enumerated") && f.Name == "Value" {
				nEnum++
				var vals []int64
				for cn, v := range s.Consts {
					if strings.HasPrefix(cn, n+"Present") {
						if k, ok := s.pkg.Scope().Lookup(cn).(*types.Const); ok && isAperNamed(k.Type(), "Enumerated") {
							vals = append(vals, v)
						}
					}
				}
				sort.Slice(vals, func(i, j int) bool { return vals[i] < vals[j] })
				contiguous := len(vals) > 0
				for i, v := range vals {
					if v != int64(i) {
						contiguous = false
					}
				}
				if !contiguous {
					fail(key+":enumerators", f.Pos, "enumerators of %s are not 0..n-1: %v", n, vals)
				} else if f.Tag.ValueLB == nil || f.Tag.ValueUB == nil || *f.Tag.ValueLB != 0 || *f.Tag.ValueUB != int64(len(vals)-1) {
					fail(key+":enum-bounds", f.Pos, "ENUMERATED %s declares %d root enumerators: tag needs valueLB:0,valueUB:%d; tag is %q", n, len(vals), len(vals)-1, f.Tag.Raw)
				}
			}
		}
		// alternatives of an open type
		if t.IsChoice && openValueTypes[n] {
			seen := map[int64]string{}
			base := strings.TrimSuffix(n, "Value")
			for _, f := range t.Fields[1:] {
				nAlt++
				key := "ngapType." + n + "." + f.Name
				if f.Tag.RefValue == nil {
					fail(key+":reference-value", f.Pos, "open-type alternative without referenceFieldValue: the decoder can never select it and the encoder refuses it")
					continue
				}
				rv := *f.Tag.RefValue
				if prev, dup := seen[rv]; dup {
					fail(key+":reference-unique", f.Pos, "referenceFieldValue %d is shared with alternative %s: the decoder picks the first match, so %s can never be decoded", rv, prev, f.Name)
				}
				seen[rv] = f.Name
				switch n {
				case "InitiatingMessageValue", "SuccessfulOutcomeValue", "UnsuccessfulOutcomeValue":
					want, ok := procByMsg[f.Name]
					if !ok {
						fail(key+":procedure-code", f.Pos, "message %s is not in the elementary procedure table of TS 38.413 9.4.4", f.Name)
					} else if want != rv {
						fail(key+":procedure-code", f.Pos, "message %s belongs to procedure code %d (TS 38.413 9.4.4); referenceFieldValue is %d", f.Name, want, rv)
					}
				default:
					if strings.HasSuffix(base, "IEs") || strings.HasSuffix(base, "ExtIEs") {
						if id, ok := s.Consts["ProtocolIEID"+f.Name]; ok {
							if id != rv {
								fail(key+":ie-id", f.Pos, "IE %s has id %d (ProtocolIEID%s); referenceFieldValue is %d", f.Name, id, f.Name, rv)
							}
						} else {
							c.Note("R3.tag: no constant ProtocolIEID%s for alternative %s.%s (referenceFieldValue %d not cross-checked)", f.Name, n, f.Name, rv)
						}
					}
				}
			}
		}
		// Present constants = field indices
		if t.IsChoice {
			prefixes := []string{n + "Present"}
			if strings.HasSuffix(n, "Value") {
				prefixes = append(prefixes, strings.TrimSuffix(n, "Value")+"Present")
			}
			for _, f := range t.Fields[1:] {
				ok, found := false, false
				var got int64
				for _, pre := range prefixes {
					if v, has := s.Consts[pre+f.Name]; has {
						found = true
						got = v
						if v == int64(f.Index) {
							ok = true
						}
					}
				}
				if found && !ok {
					fail("ngapType."+n+"."+f.Name+":present-index", f.Pos, "%sPresent%s is %d but the field is alternative number %d: encoder and decoder index alternatives by position", strings.TrimSuffix(n, "Value"), f.Name, got, f.Index)
				}
			}
		}
	}
	c.Sites(nChoiceUse + nEnum + nOpen + nAlt)
	if nBad == 0 {
		c.Ok(R, "ngapType:schema-consistent", token.NoPos, fmt.Sprintf("%d structs, %d CHOICE use sites, %d enumerations, %d open-type fields, %d open-type alternatives", nStruct, nChoiceUse, nEnum, nOpen, nAlt))
	}
	c.Floor(R, nChoiceUse, 120)
	c.Floor(R, nEnum, 50)
	c.Floor(R, nAlt, 400)
}

// ---------------------------------------------------------------- R3.types
func r3types(c *core.Ctx, s *schema) {
	if !c.Once("r3types") {
		return
	}
	const R = "R3.types"
	c.Rule(R, "constraints of the emulator-path leaf types equal TS 38.413 9.4.5")
	eq := func(p *int64, v int64) bool { return p != nil && *p == v }
	for _, l := range t38413Types {
		t := s.Types[l.Type]
		key := "ngapType." + l.Type
		if t == nil || len(t.Fields) != 1 || t.Fields[0].Name != "Value" {
			c.Fail(R, key, token.NoPos, "leaf type %s not found as struct{Value}", l.Type)
			continue
		}
		tg := t.Fields[0].Tag
		ok := false
		switch l.Kind {
		case "int", "enum":
			ok = eq(tg.ValueLB, l.LB) && eq(tg.ValueUB, l.UB) && tg.ValueExt == l.Ext && tg.SizeLB == nil && tg.SizeUB == nil
		case "octets", "bits", "string":
			if l.LB < 0 {
				ok = tg.SizeLB == nil && tg.SizeUB == nil && !tg.SizeExt
			} else {
				ok = eq(tg.SizeLB, l.LB) && eq(tg.SizeUB, l.UB) && tg.SizeExt == l.Ext
			}
			ok = ok && tg.ValueLB == nil && tg.ValueUB == nil
		}
		c.Check(ok, R, key, t.Fields[0].Pos, fmt.Sprintf("%s %d..%d ext=%v", l.Kind, l.LB, l.UB, l.Ext), "%s must be %s (%d..%d, extensible=%v) per TS 38.413; tag is %q", l.Type, l.Kind, l.LB, l.UB, l.Ext, tg.Raw)
	}
}

// ---------------------------------------------------------------- R3.err
// On every path from the creation/receipt of an error value to a function exit the
// value is returned or tested against nil.
func r3err(c *core.Ctx) {
	const R = "R3.err"
	c.Rule(R, "aper encoder: no error created (fmt.Errorf) or received from a callee is lost (overwritten or merely logged) before the function returns")
	errType := types.Universe.Lookup("error").Type()
	reach := staticReach(mustFunc(c, pAper, "MarshalWithParams"))
	n := 0
	for _, fn := range sortedFuncs(reach) {
		if fnPkgPath(fn) != pAper || len(fn.Blocks) == 0 {
			continue
		}
		c.Analysed(core.FuncName(fn))
		// does the function return an error at all?
		res := fn.Signature.Results()
		if res.Len() == 0 || !types.Identical(res.At(res.Len()-1).Type(), errType) {
			continue
		}
		ord := ordinals{}
		for _, b := range fn.Blocks {
			for _, in := range b.Instrs {
				call, ok := in.(*ssa.Call)
				if !ok {
					continue
				}
				name := core.CalleeName(&call.Call)
				var ev ssa.Value
				always := false
				switch {
				case name == "fmt.Errorf" || name == "errors.New":
					ev, always = call, true
				case types.Identical(call.Type(), errType):
					ev = call
				default:
					if tup, isT := call.Type().(*types.Tuple); isT && tup.Len() > 0 && types.Identical(tup.At(tup.Len()-1).Type(), errType) {
						if ex := extractOf(call, tup.Len()-1); ex != nil {
							ev = ex
						} else {
							ev = nil
							// error result never extracted: dropped
							if strings.HasPrefix(name, pAper+".") {
								n++
								c.Fail(R, shortFn(fn)+":"+ord.next(name)+":dropped", call.Pos(), "the error result of %s is discarded", shortName(name))
							}
							continue
						}
					}
				}
				if ev == nil {
					continue
				}
				if !always && !strings.HasPrefix(name, pAper+".") {
					continue // only the codec's own callees are in scope
				}
				n++
				key := shortFn(fn) + ":" + ord.next(name)
				// infallible: putBitsValue(const v, const n) with v < 2^n
				if name == pAper+".perRawBitData.putBitsValue" {
					v, okV := core.ConstInt(call.Call.Args[1])
					w, okW := core.ConstInt(call.Call.Args[2])
					if okV && okW && w > 0 && w < 63 && v >= 0 && v < 1<<uint(w) {
						if lost, _ := errorLost(call, ev, always); lost {
							c.Except(R, key, call.Pos(), fmt.Sprintf("putBitsValue(%d, %d) cannot fail (the constant fits): its error is only logged", v, w))
							continue
						}
					}
					// … or one of several constants that all fit (a flag computed on the way: 0 or 1 in one bit)
					if !okV && okW && w > 0 && w < 63 {
						if ks, all := phiConstants(call.Call.Args[1], 0); all && len(ks) > 0 {
							fits := true
							for _, k := range ks {
								if k < 0 || k >= 1<<uint(w) {
									fits = false
								}
							}
							if fits {
								if lost, _ := errorLost(call, ev, always); lost {
									c.Except(R, key, call.Pos(), fmt.Sprintf("putBitsValue(one of %v, %d) cannot fail (every value it can be handed fits): its error is only logged", ks, w))
									continue
								}
							}
						}
					}
				}
				if lost, where := errorLost(call, ev, always); lost {
					c.Fail(R, key, call.Pos(), "the error %s can be lost: %s", map[bool]string{true: "created here", false: "returned by " + shortName(name)}[always], where)
				} else {
					c.Ok(R, key, call.Pos(), "returned or tested on every path")
				}
			}
		}
	}
	c.Sites(n)
	c.Floor(R, n, 40)
}

// errorLost walks all paths after def; carriers are the SSA values that hold the
// error on the current path (def itself and phis fed by it on the edge taken).
func errorLost(def ssa.Instruction, ev ssa.Value, alwaysNonNil bool) (bool, string) {
	lost := ""
	visited := map[string]bool{}
	var walk func(b *ssa.BasicBlock, idx int, carrier map[ssa.Value]bool, depth int)
	step := func(from, to *ssa.BasicBlock, carrier map[ssa.Value]bool, depth int) {
		next := map[ssa.Value]bool{}
		for v := range carrier {
			next[v] = true
		}
		edge := -1
		for i, p := range to.Preds {
			if p == from {
				edge = i
			}
		}
		for _, in := range to.Instrs {
			ph, ok := in.(*ssa.Phi)
			if !ok {
				break
			}
			if edge >= 0 && carrier[ph.Edges[edge]] {
				next[ph] = true
			} else {
				delete(next, ph)
			}
		}
		var ks []string
		for v := range next {
			ks = append(ks, v.Name())
		}
		sort.Strings(ks)
		key := fmt.Sprintf("%d>%d:%s", from.Index, to.Index, strings.Join(ks, ","))
		if visited[key] {
			return
		}
		visited[key] = true
		walk(to, 0, next, depth+1)
	}
	walk = func(b *ssa.BasicBlock, idx int, carrier map[ssa.Value]bool, depth int) {
		if lost != "" || depth > 500 {
			return
		}
		for i := idx; i < len(b.Instrs); i++ {
			switch x := b.Instrs[i].(type) {
			case *ssa.Return:
				for _, r := range x.Results {
					if carrier[r] {
						return // returned
					}
				}
				lost = "a path reaches the return at " + posStr(def, x) + " without returning or testing it"
				return
			case *ssa.If:
				if bo, ok := x.Cond.(*ssa.BinOp); ok && (bo.Op == token.NEQ || bo.Op == token.EQL) {
					isNil := func(v ssa.Value) bool { k, ok := v.(*ssa.Const); return ok && k.Value == nil }
					var tested ssa.Value
					if isNil(bo.Y) {
						tested = bo.X
					} else if isNil(bo.X) {
						tested = bo.Y
					}
					if tested != nil && carrier[tested] {
						// the error was looked at: what the non-nil branch does with it
						// (return, wrap, log) is that branch's decision; it is not silently lost
						nonNil := b.Succs[0]
						if bo.Op == token.EQL {
							nonNil = b.Succs[1]
						}
						if branchOnlyLogs(nonNil, carrier) {
							lost = "it is tested at " + posStr(def, x) + " but the non-nil branch only logs it and carries on"
						}
						return
					}
				}
			}
		}
		for _, s := range b.Succs {
			step(b, s, carrier, depth)
		}
	}
	walk(def.Block(), core.InstrIndex(def)+1, map[ssa.Value]bool{ev: true}, 0)
	_ = alwaysNonNil
	return lost != "", lost
}

// branchOnlyLogs: the block handling a non-nil error neither returns nor stores it:
// it falls through to the normal continuation.
func branchOnlyLogs(b *ssa.BasicBlock, carrier map[ssa.Value]bool) bool {
	for _, in := range b.Instrs {
		switch x := in.(type) {
		case *ssa.Return:
			return false
		case *ssa.Store:
			if carrier[x.Val] {
				return false
			}
		case *ssa.Panic:
			return false
		}
	}
	// falls through: the error is not propagated by this block; is it carried by a phi afterwards?
	for _, s := range b.Succs {
		for _, in := range s.Instrs {
			ph, ok := in.(*ssa.Phi)
			if !ok {
				break
			}
			for i, p := range s.Preds {
				if p == b && carrier[ph.Edges[i]] {
					return false
				}
			}
		}
	}
	return true
}

func posStr(def ssa.Instruction, r ssa.Instruction) string {
	p := def.Parent().Prog.Fset.Position(r.Pos())
	if !p.IsValid() {
		return "the end of the function"
	}
	return fmt.Sprintf("line %d", p.Line)
}

var rangeForm = regexp.MustCompile(`^\(\(p\d+-(p\d+|0)\)\+1\)$`)

// ---------------------------------------------------------------- R3.strlen
// Length determinant of BIT STRING / OCTET STRING (X.691 16.8-16.11, 17.5-17.8 with
// 10.9.3): a constrained size with ub < 64K sends n - lb as a constrained whole
// number; in every other case (no bound, ub >= 64K, or a size outside the root of an
// extensible constraint) the general length determinant sends n itself. On every
// path of the four string primitives up to the first length determinant the pair
// (size range handed to appendLength/parseLength, offset subtracted from / added to
// the count) must therefore be (-1, 0) or (range, *lowerBound).
func r3strlen(c *core.Ctx) {
	if !c.Once("r3strlen") {
		return
	}
	const R = "R3.strlen"
	c.Rule(R, "BIT/OCTET STRING length: n - lb only with a constrained size (ub < 64K); n itself with the general length determinant (encoder and decoder)")
	decX := map[string]bool{}
	for _, spec := range []struct {
		fn     string
		lenFn  string
		lbPar  int // parameter index of lowerBoundPtr
		encode bool
	}{
		{"perRawBitData.appendBitString", "perRawBitData.appendLength", 4, true},
		{"perRawBitData.appendOctetString", "perRawBitData.appendLength", 3, true},
		{"perBitData.parseBitString", "perBitData.parseLength", 2, false},
		{"perBitData.parseOctetString", "perBitData.parseLength", 2, false},
	} {
		fn := mustFunc(c, pAper, spec.fn)
		if spec.encode {
			count := "len(p1)"
			if strings.HasSuffix(spec.fn, "appendBitString") {
				count = "p2"
			}
			if r3strlenEncX(c, R, spec.fn, spec.lbPar, count) {
				continue
			}
		}
		p := core.NewPather(fn)
		calls := core.CallsTo(fn, pAper+"."+spec.lenFn)
		if len(calls) != 1 {
			c.SoftUndecided("%s: expected one call of %s, found %d", spec.fn, spec.lenFn, len(calls))
			continue
		}
		lenCall := calls[0].(*ssa.Call)
		// the offset: encoder `count - uint64(lb)` feeding the loop; decoder `length + uint64(lb)`
		var lbVal ssa.Value
		if spec.encode {
			for _, b := range fn.Blocks {
				for _, in := range b.Instrs {
					if bo, ok := in.(*ssa.BinOp); ok && bo.Op == token.SUB && bo.Block().Dominates(lenCall.Block()) {
						if _, isConv := bo.Y.(*ssa.Convert); isConv && !strings.Contains(p.Path(bo.X), "-") {
							if _, isK := core.ConstInt(bo.Y); !isK {
								lbVal = bo.Y
							}
						}
					}
				}
			}
		} else {
			ex := extractOf(lenCall, 0)
			if ex != nil {
				for _, r := range core.Referrers(ex) {
					// through the `rawLength = length` merge
					cands := []ssa.Value{ex}
					if ph, ok := r.(*ssa.Phi); ok {
						cands = append(cands, ph)
					}
					for _, cv := range cands {
						for _, r2 := range core.Referrers(cv) {
							if bo, ok := r2.(*ssa.BinOp); ok && bo.Op == token.ADD {
								if bo.X == cv {
									lbVal = bo.Y
								} else {
									lbVal = bo.X
								}
							}
						}
					}
				}
			}
		}
		if lbVal == nil {
			c.SoftUndecided("%s: the lower-bound offset applied to the length was not found", spec.fn)
			continue
		}
		lbPtr := fmt.Sprintf("p%d", spec.lbPar)
		type obs struct {
			rng, lb string
			noUB    bool // the path established that there is no upper bound
		}
		ubPtr := "p" + itoa(spec.lbPar+1)
		seen := map[obs]string{}
		ev := func(in ssa.Instruction) string {
			if in == ssa.Instruction(lenCall) {
				return "probe:" + p.Path(lenCall.Call.Args[1]) + "|" + p.Path(lbVal)
			}
			if _, isRet := in.(*ssa.Return); isRet {
				return "ret"
			}
			return ""
		}
		stop := false
		ev2 := func(in ssa.Instruction) string {
			if stop {
				stop = false
			}
			e := ev(in)
			return e
		}
		br := func(cond ssa.Value) string { return clip(p.Path(cond)) }
		paths, ok := core.EventPathsR(fn, p, func(in ssa.Instruction) string {
			e := ev2(in)
			if strings.HasPrefix(e, "probe:") {
				return e
			}
			return e
		}, br, 1, 20000)
		if !ok {
			c.Undecided("%s has more than 20000 paths", spec.fn)
		}
		nProbe := 0
		for _, path := range paths {
			for i, e := range path {
				if !strings.HasPrefix(e, "probe:") {
					continue
				}
				nProbe++
				parts := strings.SplitN(strings.TrimPrefix(e, "probe:"), "|", 2)
				pre := strings.Join(path[:i], " ")
				o := obs{parts[0], parts[1], strings.Contains(pre, "("+ubPtr+"==nil)=T") || strings.Contains(pre, "("+ubPtr+"!=nil)=F")}
				if _, dup := seen[o]; !dup {
					seen[o] = strings.Join(path[:i], " ")
				}
				break // first determinant of the path only
			}
		}
		if nProbe == 0 {
			c.SoftUndecided("%s: no path reaches the length determinant", spec.fn)
			continue
		}
		var keys []obs
		for o := range seen {
			keys = append(keys, o)
		}
		sort.Slice(keys, func(i, j int) bool {
			return keys[i].rng+keys[i].lb+fmt.Sprint(keys[i].noUB) < keys[j].rng+keys[j].lb+fmt.Sprint(keys[j].noUB)
		})
		for _, o := range keys {
			key := fmt.Sprintf("aper.%s:range=%s:offset=%s", spec.fn, o.rng, o.lb)
			if o.noUB {
				key += ":no-upper-bound"
			}
			general := o.rng == "-1"
			// a range (ub - L) + 1 is at least 1 (R3.tag: sizeLB <= sizeUB): a path that took
			// `range == -1` as true with such a range is infeasible
			if !general && (strings.Contains(seen[o], "("+o.rng+"==-1)=T") || strings.Contains(seen[o], "("+o.rng+"!=-1)=F")) {
				continue
			}
			// the lower bound L the range was computed with
			rangeLB := ""
			if m := rangeForm.FindStringSubmatch(o.rng); m != nil {
				rangeLB = m[1]
			}
			switch {
			case !general && rangeLB != "" && o.lb == rangeLB:
				c.Ok(R, key, lenCall.Pos(), "constrained size: n - lb with the lb of the range")
			case general && o.lb == "0":
				c.Ok(R, key, lenCall.Pos(), "general length determinant carries n")
			case general && o.lb == lbPtr:
				// semi-constrained size (lower bound only) or ub >= 64K with the bound still applied
				if o.noUB {
					c.Except(R, key, lenCall.Pos(), "semi-constrained size (lower bound without upper bound): n - lb is sent where X.691 10.9.3.5 sends n; no NGAP type has such a constraint (R3.schema), so no encoding is affected")
				} else {
					c.Fail(R, key, lenCall.Pos(), "the general length determinant (size range -1) is used together with the offset *lowerBound: X.691 10.9.3.5 sends the count n itself, n - lb belongs to constrained sizes with ub < 64K only (path: %s)", clip(seen[o]))
				}
			case !general && o.lb == lbPtr:
				c.Ok(R, key, lenCall.Pos(), "constrained size: n - lb in ceil(log2(range)) bits")
			case !general && o.lb == "0":
				c.Fail(R, key, lenCall.Pos(), "a constrained size range (%s) is used with offset 0: X.691 10.9.3.3 sends n - lb (path: %s)", o.rng, clip(seen[o]))
			default:
				if !spec.encode {
					// the bounds reach the determinant through a helper: the decoder half on the evaluator
					if _, tried := decX[spec.fn]; !tried {
						decX[spec.fn] = r3strlenDecX(c, R, spec.fn)
					}
					if decX[spec.fn] {
						continue
					}
				}
				c.SoftUndecided("%s: length determinant with range %s and offset %s not classified", spec.fn, o.rng, o.lb)
			}
		}
	}
}

// ---------------------------------------------------------------- R3.input
// Encoding does not change the value being encoded: no encoder primitive stores into
// a slice it received as a parameter (the caller's BitString/OctetString storage).
// The one store the pinned library has — appendBitString clearing the padding bits of
// the last octet, which is idempotent — is the argued exception. Any other write makes
// a second encoding of the same PDU differ from the first.
func r3input(c *core.Ctx) {
	const R = "R3.input"
	c.Rule(R, "no encoder primitive writes into a byte slice it was handed (the value encoded stays what it was)")
	reach := staticReach(mustFunc(c, pAper, "MarshalWithParams"))
	n, bad := 0, 0
	for _, f := range sortedFuncs(reach) {
		if fnPkgPath(f) != pAper || len(f.Blocks) == 0 {
			continue
		}
		n++
		p := core.NewPather(f)
		ord := ordinals{}
		for _, b := range f.Blocks {
			for _, in := range b.Instrs {
				st, ok := in.(*ssa.Store)
				if !ok {
					continue
				}
				ia, isIA := st.Addr.(*ssa.IndexAddr)
				if !isIA {
					continue
				}
				base := p.Path(ia.X)
				// a parameter slice, or a re-slice of one (p1, p1[2:], …) — not the receiver's own buffer
				isParam := false
				for i := range f.Params {
					pn := fmt.Sprintf("p%d", i)
					if (base == pn || strings.HasPrefix(base, pn+"[")) && i > 0 {
						if _, isSlice := f.Params[i].Type().Underlying().(*types.Slice); isSlice {
							isParam = true
						}
					}
				}
				if !isParam {
					continue
				}
				key := shortFn(f) + ":" + ord.next("store-to-parameter") + ":" + base
				// the padding mask: bytes[sizes-1] &= 0xff << shift
				if f.Name() == "appendBitString" {
					if bo, isAnd := st.Val.(*ssa.BinOp); isAnd && bo.Op == token.AND && strings.HasPrefix(p.Path(bo.X), base+"[") {
						c.Except(R, key, st.Pos(), "clears the padding bits of the last octet of the caller's BIT STRING: idempotent (a second encoding writes the same octet), and the cleared bits are not part of the value")
						continue
					}
				}
				bad++
				c.Fail(R, key, st.Pos(), "%s stores into %s, a slice it received from its caller: the encoded value itself is modified, so encoding the same PDU again (or encoding another PDU that shares the buffer) gives different bytes", shortFn(f), base)
			}
		}
	}
	if n < 15 {
		c.Undecided("R3.input: only %d encoder functions reachable from MarshalWithParams", n)
	}
	if bad == 0 {
		c.Ok(R, "aper:encoder-functions", token.NoPos, fmt.Sprintf("%d functions scanned", n))
	}
}

// ---------------------------------------------------------------- R3.underflow
// The encoder counts in unsigned integers. `x - c` on an unsigned x wraps to a huge
// number when x < c; where such a difference is written to the wire (an "octets
// minus one" length field, a bit count) the value is then refused ("over capacity")
// or mis-sized. Every such difference in the encoder needs x >= c on all paths
// (interval analysis with loop induction, math/bits ranges and one-line helpers).
func r3underflow(c *core.Ctx) {
	const R = "R3.underflow"
	c.Rule(R, "encoder: every unsigned `x - c` that reaches the wire has x >= c on all paths (no wrap-around of an octet or bit count)")
	reach := staticReach(mustFunc(c, pAper, "MarshalWithParams"))
	n := 0
	for _, f := range sortedFuncs(reach) {
		if fnPkgPath(f) != pAper || len(f.Blocks) == 0 || !strings.Contains(core.FuncName(f), "perRawBitData") {
			continue
		}
		ia := core.NewIntervalAnalyzer(f)
		p := core.NewPather(f)
		ord := ordinals{}
		for _, b := range f.Blocks {
			for _, in := range b.Instrs {
				bo, ok := in.(*ssa.BinOp)
				if !ok || bo.Op != token.SUB {
					continue
				}
				bt, isB := bo.X.Type().Underlying().(*types.Basic)
				if !isB || bt.Info()&types.IsUnsigned == 0 {
					continue
				}
				k, isK := core.ConstInt(bo.Y)
				if !isK || k <= 0 {
					continue
				}
				// only differences that flow into a call argument (written to the wire / used as a size)
				toCall := false
				seen := map[ssa.Value]bool{}
				var follow func(v ssa.Value, d int)
				follow = func(v ssa.Value, d int) {
					if seen[v] || d > 4 {
						return
					}
					seen[v] = true
					for _, r := range core.Referrers(v) {
						switch y := r.(type) {
						case ssa.CallInstruction:
							if nm := core.CalleeName(y.Common()); strings.HasPrefix(nm, pAper+".perRawBitData.") {
								toCall = true
							}
						case *ssa.Convert:
							follow(y, d+1)
						case *ssa.ChangeType:
							follow(y, d+1)
						}
					}
				}
				follow(bo, 0)
				if !toCall {
					continue
				}
				n++
				key := shortFn(f) + ":" + ord.next("unsigned-sub") + ":" + clip(p.Path(bo))
				iv := ia.At(bo.X, b)
				switch {
				case iv.Known && iv.Lo >= k:
					c.Ok(R, key, bo.Pos(), fmt.Sprintf("%s in [%d,%d]", clip(p.Path(bo.X)), iv.Lo, iv.Hi))
				case iv.Known:
					c.Fail(R, key, bo.Pos(), "%s can be as small as %d, so %s wraps around in unsigned arithmetic: the count written to the wire is wrong or the value is refused as over capacity (e.g. an octet count of 0 for the value 0)", clip(p.Path(bo.X)), iv.Lo, clip(p.Path(bo)))
				default:
					c.SoftUndecided("%s: cannot bound %s from below", shortFn(f), clip(p.Path(bo.X)))
				}
			}
		}
	}
	if n == 0 {
		c.SoftUndecided("R3.underflow: no unsigned difference reaching an encoder primitive found (expected the `octets - 1` length field of appendInteger)")
	}
}

// r3pure: the encoder keeps no state between calls (a cache of parsed tags, a pooled buffer): the
// encoding of a value depends on the value alone, also when two values are encoded at once.
func r3pure(c *core.Ctx) {
	if !c.Once("r3pure") {
		return
	}
	var entries []*ssa.Function
	for _, n := range []string{"Marshal", "MarshalWithParams"} {
		if f := c.P.Func(pAper, n); f != nil {
			entries = append(entries, f)
		}
	}
	if f := c.P.Func(pNgap, "Encoder"); f != nil {
		entries = append(entries, f)
	}
	if len(entries) < 2 {
		c.Undecided("R3.pure: the encoder entry points (aper.Marshal*, ngap.Encoder) were not found")
	}
	pureState(c, "R3.pure", "the APER encoder (aper.Marshal, aper.MarshalWithParams, ngap.Encoder)", entries, nil)
}

// phiConstants: the constants a value merged from constants can be (through phis and widening
// conversions); all is false when something that is not a constant can flow in.
func phiConstants(v ssa.Value, depth int) (ks []int64, all bool) {
	if depth > 4 {
		return nil, false
	}
	if k, ok := core.ConstInt(v); ok {
		return []int64{k}, true
	}
	switch x := v.(type) {
	case *ssa.Phi:
		for _, e := range x.Edges {
			sub, ok := phiConstants(e, depth+1)
			if !ok {
				return nil, false
			}
			ks = append(ks, sub...)
		}
		return ks, true
	case *ssa.Convert:
		return phiConstants(x.X, depth+1)
	case *ssa.ChangeType:
		return phiConstants(x.X, depth+1)
	}
	return nil, false
}
