package rules

import (
	"fmt"
	"strings"

	"stgverif/internal/core"
)

// Evaluator model of the decoder's parseSequenceOf (DESIGN §11.15), shared by R4.seqof (decode
// half) and R14.alloc: the function is interpreted up to reflect.MakeSlice with
// parseConstraintValue summarised as a named value cv#k (its range argument and the facts about
// the size bounds recorded), parseAlignBits as succeeding, and helpers of the package entered
// (a readByte helper is the same octet read). Each outcome is one branch of the count decoding.

type seqofCase struct {
	count    core.AVal
	cv       *core.AEvent // the parseConstraintValue call of this path (nil: none)
	aligned  bool
	lbKnown  bool // the path established sizeLowerBound != nil and < 65536
	ubCapped bool // … sizeUpperBound != nil and < 65536
	conds    []string
}

func seqofEval(c *core.Ctx) ([]seqofCase, string) {
	fn := mustFunc(c, pAper, "perBitData.parseSequenceOf")
	ex := core.NewExec()
	ex.MaxStates = 1024
	ex.OnCall = func(ev *core.AEvent, m *core.AMem) (core.AVal, bool) {
		n := ev.Callee
		switch {
		case n == "reflect.MakeSlice":
			ev.Stop = true
			return core.AVal{}, true
		case n == pAper+".perBitData.parseConstraintValue":
			return core.AVal{K: core.ATuple, Elems: []core.AVal{core.ArgBits(fmt.Sprintf("cv#%d", ev.Index), 64, 64), core.NilArg()}}, true
		case n == pAper+".perBitData.parseAlignBits":
			return core.NilArg(), true
		case strings.HasSuffix(n, ".perTrace"), strings.HasSuffix(n, ".perBitLog"), n == "fmt.Sprintf", strings.HasPrefix(n, "reflect."), strings.Contains(n, "logrus"), strings.Contains(n, "logger"):
			return core.OpaqueRet(ev), true
		}
		return core.AVal{}, false
	}
	args := core.DefaultArgs(fn)
	args[0] = core.NonNilArg(args[0])
	outs, err := ex.Run(fn, args, nil)
	if err != nil {
		return nil, err.Error()
	}
	if len(ex.Unsound) > 0 {
		return nil, strings.Join(ex.Unsound, "; ")
	}
	var cases []seqofCase
	for _, o := range outs {
		if !o.Stopped || len(o.Trace) == 0 {
			continue
		}
		last := o.Trace[len(o.Trace)-1]
		if last.Callee != "reflect.MakeSlice" || len(last.Args) < 3 {
			continue
		}
		sc := seqofCase{count: last.Args[1], conds: o.Conds}
		for i := range o.Trace {
			switch o.Trace[i].Callee {
			case pAper + ".perBitData.parseConstraintValue":
				sc.cv = &o.Trace[i]
			case pAper + ".perBitData.parseAlignBits":
				sc.aligned = true
			}
		}
		capped := func(name string) bool {
			if isNil, known := o.Nils[name]; !known || isNil {
				return false
			}
			f, has := o.SFacts[name]
			return has && f[1] < 65536
		}
		sc.lbKnown, sc.ubCapped = capped("p2.sizeLowerBound"), capped("p2.sizeUpperBound")
		cases = append(cases, sc)
	}
	return cases, ""
}

// octetWide: the value is the zero-extension of at most 8 unknown bits.
func octetWide(v core.AVal) bool {
	if v.K != core.AInt {
		return false
	}
	for i, b := range v.Bits {
		if i >= 8 && b.Kind != core.BZero {
			return false
		}
		if b.Kind == core.BMix {
			return false
		}
	}
	return true
}

// r4seqofDecX decides the decode half of R4.seqof; false: the model is not usable.
func r4seqofDecX(c *core.Ctx, R string) bool {
	cases, why := seqofEval(c)
	if why != "" || len(cases) == 0 {
		c.Note("R4.seqof: evaluator model of parseSequenceOf not used (%s, %d cases)", why, len(cases))
		return false
	}
	fn := mustFunc(c, pAper, "perBitData.parseSequenceOf")
	okRaw, okLB := true, true
	nRaw, nLB := 0, 0
	gotRaw, gotLB := "", ""
	for _, sc := range cases {
		name := nm(sc.count)
		switch {
		case sc.cv != nil:
			nLB++
			cv := fmt.Sprintf("cv#%d", sc.cv.Index)
			want := cv
			if sc.lbKnown {
				want = "(" + cv + "+p2.sizeLowerBound)"
			}
			alt := "(p2.sizeLowerBound+" + cv + ")"
			if name != want && !(sc.lbKnown && name == alt) {
				okLB, gotLB = false, name
			}
		case sc.aligned:
			nRaw++
			if !octetWide(sc.count) || !strings.HasPrefix(name, "p0.bytes[") {
				okRaw, gotRaw = false, name
			}
		}
	}
	c.Check(okRaw && nRaw > 0, R, "aper.parseSequenceOf(decode):semi-constrained-count", fn.Pos(), fmt.Sprintf("count = the length octet (%d evaluated branches)", nRaw), "on the semi-constrained branch the element count must be the octet read (the encoder writes the count itself there); count expression: %s", clip(gotRaw))
	c.Check(okLB && nLB > 0, R, "aper.parseSequenceOf(decode):constrained-count", fn.Pos(), fmt.Sprintf("count = value + lowerBound (%d evaluated branches)", nLB), "on the constrained branch the element count must be the decoded value plus the lower bound; count expression: %s", clip(gotLB))
	return true
}

// r14allocSeqX decides the MakeSlice obligations of R14.alloc; false: the model is not usable.
func r14allocSeqX(c *core.Ctx, R string) bool {
	cases, why := seqofEval(c)
	if why != "" || len(cases) == 0 {
		return false
	}
	fn := mustFunc(c, pAper, "perBitData.parseSequenceOf")
	ok, okCap := true, true
	got := ""
	for _, sc := range cases {
		name := nm(sc.count)
		switch {
		case octetWide(sc.count):
		case sc.cv != nil:
			// the constrained count: below the range handed to parseConstraintValue, which the
			// path's facts cap at 65536, plus a lower bound capped the same way
			if !sc.ubCapped {
				okCap = false
			}
			cv := fmt.Sprintf("cv#%d", sc.cv.Index)
			if name != cv && name != "("+cv+"+p2.sizeLowerBound)" && name != "(p2.sizeLowerBound+"+cv+")" {
				ok, got = false, name
			}
			if strings.Contains(name, "p2.sizeLowerBound") && !sc.lbKnown {
				okCap = false
			}
		case name == "p2.sizeLowerBound" && sc.lbKnown:
		default:
			if k, isK := sc.count.ConstVal(); isK && k < 65536 {
				continue
			}
			ok, got = false, name
		}
	}
	c.Check(ok, R, "aper.parseSequenceOf:MakeSlice", fn.Pos(), fmt.Sprintf("count = constrained value (<= 65535) + lower bound, or one octet (%d evaluated branches)", len(cases)), "the number of list elements allocated must be a constrained count (at most 16 bits, from parseConstraintValue) plus the lower bound, or a single octet; it is %s — an input could claim an arbitrary count and exhaust memory", clip(got))
	c.Check(okCap, R, "aper.parseSequenceOf:size-cap", fn.Pos(), "size bounds above 65535 are treated as unconstrained (one count octet)", "SEQUENCE OF size bounds must be capped at 65535 before they size an allocation")
	return true
}
