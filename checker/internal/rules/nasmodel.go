package rules

import (
	"fmt"
	"go/ast"
	"go/constant"
	"go/token"
	"go/types"
	"sort"
	"strings"

	"golang.org/x/tools/go/packages"

	"stgverif/internal/core"
)

// A7: model of the generated NAS message code, extracted from the AST + types.

type nasTok struct {
	Field string // embedded IE field
	Part  string // Iei | Len | Value | ValueFromIei (half-octet: value is the IEI octet) | New | SetLen
	Arg   string // rendering of the value operand (Octet, Octet[:Len], Buffer, Buffer[:Len])
}

func (t nasTok) String() string {
	if t.Arg != "" {
		return t.Field + "." + t.Part + "(" + t.Arg + ")"
	}
	return t.Field + "." + t.Part
}

type nasIE struct {
	Field     string
	TypeName  string
	Optional  bool
	IEIConst  string
	IEI       int64
	HasIEI    bool
	LenWidth  int    // octets of the Len field (0 = none)
	ValueKind string // "octet" | "array" | "buffer"
	ValueSize int64  // 1 for octet, N for array, -1 for buffer
	Pos       token.Pos
	Enc       []nasTok
	Dec       []nasTok
}

type nasMsg struct {
	Name     string
	Pos      token.Pos
	IEs      []*nasIE // struct order
	EncMand  []nasTok
	DecMand  []nasTok
	EncOrder []string // optional fields in encode order
	DecCases map[string]string
	Loop     string // rendering of the decode loop header/preamble
	LoopFn   string // the helper that reads and normalises the IEI octet, when the preamble is a call of one
	Problems []string
	EncPos   token.Pos
	DecPos   token.Pos
}

type nasModel struct {
	Msgs map[string]*nasMsg
	pkg  *packages.Package
}

func exprStr(e ast.Expr) string { return types.ExprString(e) }

// selField: a.F.X  → (F, X)
func selField(e ast.Expr) (string, string, bool) {
	if u, ok := e.(*ast.UnaryExpr); ok && u.Op == token.AND {
		e = u.X
	}
	s, ok := e.(*ast.SelectorExpr)
	if !ok {
		return "", "", false
	}
	in, ok := s.X.(*ast.SelectorExpr)
	if !ok {
		return "", "", false
	}
	if id, ok := in.X.(*ast.Ident); !ok || id.Name != "a" {
		return "", "", false
	}
	return in.Sel.Name, s.Sel.Name, true
}

// tokOf classifies the data operand of binary.Write / binary.Read.
func tokOf(e ast.Expr) (nasTok, bool) {
	// a.F.GetLen() / a.F.GetIei()
	if call, ok := e.(*ast.CallExpr); ok && len(call.Args) == 0 {
		if f, m, ok := selField(call.Fun); ok {
			switch m {
			case "GetLen":
				return nasTok{Field: f, Part: "Len"}, true
			case "GetIei":
				return nasTok{Field: f, Part: "Iei"}, true
			}
		}
		return nasTok{}, false
	}
	// a.F.Octet[:a.F.GetLen()] etc.
	if sl, ok := e.(*ast.SliceExpr); ok {
		f, m, ok := selField(sl.X)
		if !ok || (m != "Octet" && m != "Buffer") {
			return nasTok{}, false
		}
		arg := m + "[" + sliceBound(sl.Low, f) + ":" + sliceBound(sl.High, f) + "]"
		return nasTok{Field: f, Part: "Value", Arg: arg}, true
	}
	f, m, ok := selField(e)
	if !ok {
		return nasTok{}, false
	}
	switch m {
	case "Octet", "Buffer":
		return nasTok{Field: f, Part: "Value", Arg: m}, true
	case "Len":
		return nasTok{Field: f, Part: "Len"}, true
	case "Iei":
		return nasTok{Field: f, Part: "Iei"}, true
	}
	return nasTok{}, false
}

func sliceBound(e ast.Expr, field string) string {
	if e == nil {
		return ""
	}
	if call, ok := e.(*ast.CallExpr); ok && len(call.Args) == 0 {
		if f, m, ok := selField(call.Fun); ok && f == field && m == "GetLen" {
			return "Len"
		}
	}
	return exprStr(e)
}

func isBinaryCall(call *ast.CallExpr, name string) bool {
	s, ok := call.Fun.(*ast.SelectorExpr)
	if !ok || s.Sel.Name != name {
		return false
	}
	id, ok := s.X.(*ast.Ident)
	return ok && id.Name == "binary" && len(call.Args) == 3
}

// isIOCall: any other call that moves octets to/from the message buffer.
func isIOCall(call *ast.CallExpr) bool {
	s, ok := call.Fun.(*ast.SelectorExpr)
	if !ok {
		return false
	}
	if id, ok := s.X.(*ast.Ident); ok && (id.Name == "buffer" || id.Name == "binary") {
		return true
	}
	return false
}

func isLogCall(call *ast.CallExpr) bool {
	return strings.HasPrefix(exprStr(call.Fun), "logger.") || strings.HasPrefix(exprStr(call.Fun), "fmt.Print")
}

// encodeTok classifies one statement-level call of an Encode<X> method that moves octets to the
// message buffer: binary.Write (reflection, width = size of the operand), buffer.WriteByte (one
// octet: the operand must be an 8-bit value), buffer.Write (a slice; a 2-octet big-endian length
// built with AppendUint16 or staged in a local array by PutUint16). tmp holds staged lengths.
// skip: the statement only prepares a later write.
func encodeTok(info *types.Info, call *ast.CallExpr, tmp map[string]nasTok) (tok nasTok, ok, skip bool) {
	if isBinaryCall(call, "Write") {
		t, ok := tokOf(call.Args[2])
		return t, ok, false
	}
	is8 := func(e ast.Expr) bool {
		b, isB := info.TypeOf(e).Underlying().(*types.Basic)
		return isB && (b.Kind() == types.Uint8 || b.Kind() == types.Int8)
	}
	is16 := func(e ast.Expr) bool {
		b, isB := info.TypeOf(e).Underlying().(*types.Basic)
		return isB && b.Kind() == types.Uint16
	}
	fun := exprStr(call.Fun)
	switch {
	case fun == "buffer.WriteByte" && len(call.Args) == 1:
		e := call.Args[0]
		if !is8(e) {
			return nasTok{}, false, false
		}
		t, ok := tokOf(e)
		if ok && t.Part == "Value" && t.Arg != "Octet" {
			ok = false
		}
		return t, ok, false
	case fun == "buffer.Write" && len(call.Args) == 1:
		e := call.Args[0]
		if t, ok := tokOf(e); ok && t.Part == "Value" {
			if t.Arg == "Octet[:]" {
				t.Arg = "Octet"
			}
			return t, true, false
		}
		if c2, isCall := e.(*ast.CallExpr); isCall && exprStr(c2.Fun) == "binary.BigEndian.AppendUint16" && len(c2.Args) == 2 && exprStr(c2.Args[0]) == "nil" && is16(c2.Args[1]) {
			if t, ok := tokOf(c2.Args[1]); ok && t.Part == "Len" {
				return t, true, false
			}
		}
		if sl, isSl := e.(*ast.SliceExpr); isSl && sl.Low == nil && sl.High == nil {
			if id, isId := sl.X.(*ast.Ident); isId {
				if t, staged := tmp[id.Name]; staged {
					delete(tmp, id.Name)
					return t, true, false
				}
			}
		}
	case fun == "binary.BigEndian.PutUint16" && len(call.Args) == 2 && is16(call.Args[1]):
		if sl, isSl := call.Args[0].(*ast.SliceExpr); isSl && sl.Low == nil && sl.High == nil {
			if id, isId := sl.X.(*ast.Ident); isId {
				if at, isArr := info.TypeOf(id).Underlying().(*types.Array); isArr && at.Len() == 2 {
					if t, ok := tokOf(call.Args[1]); ok && t.Part == "Len" {
						tmp[id.Name] = t
						return nasTok{}, true, true
					}
				}
			}
		}
	}
	return nasTok{}, false, false
}

func buildNasModel(c *core.Ctx) *nasModel {
	pk := c.P.Pkg(pNasM)
	tpk := c.P.Pkg(pNasT)
	m := &nasModel{Msgs: map[string]*nasMsg{}, pkg: pk}
	// constants <Msg><IE>Type
	consts := map[string]int64{}
	for _, n := range pk.Types.Scope().Names() {
		if k, ok := pk.Types.Scope().Lookup(n).(*types.Const); ok && strings.HasSuffix(n, "Type") {
			if v, ok := constant.Int64Val(constant.ToInt(k.Val())); ok {
				consts[n] = v
			}
		}
	}
	// find Encode<X>/Decode<X> methods
	type fdecl struct{ enc, dec *ast.FuncDecl }
	decls := map[string]*fdecl{}
	for _, f := range pk.Syntax {
		for _, d := range f.Decls {
			fd, ok := d.(*ast.FuncDecl)
			if !ok || fd.Recv == nil || fd.Body == nil {
				continue
			}
			rt := fd.Recv.List[0].Type
			if st, ok := rt.(*ast.StarExpr); ok {
				rt = st.X
			}
			id, ok := rt.(*ast.Ident)
			if !ok {
				continue
			}
			if fd.Name.Name == "Encode"+id.Name {
				if decls[id.Name] == nil {
					decls[id.Name] = &fdecl{}
				}
				decls[id.Name].enc = fd
			}
			if fd.Name.Name == "Decode"+id.Name {
				if decls[id.Name] == nil {
					decls[id.Name] = &fdecl{}
				}
				decls[id.Name].dec = fd
			}
		}
	}
	var names []string
	for n := range decls {
		names = append(names, n)
	}
	sort.Strings(names)
	for _, name := range names {
		d := decls[name]
		obj := pk.Types.Scope().Lookup(name)
		if obj == nil {
			continue
		}
		st, ok := obj.Type().Underlying().(*types.Struct)
		if !ok {
			continue
		}
		msg := &nasMsg{Name: name, Pos: obj.Pos(), DecCases: map[string]string{}}
		m.Msgs[name] = msg
		byField := map[string]*nasIE{}
		for i := 0; i < st.NumFields(); i++ {
			f := st.Field(i)
			ie := &nasIE{Field: f.Name(), Pos: f.Pos(), ValueSize: -2}
			t := f.Type()
			if pt, ok := t.(*types.Pointer); ok {
				ie.Optional = true
				t = pt.Elem()
			}
			if n, ok := t.(*types.Named); ok {
				ie.TypeName = n.Obj().Name()
				if n.Obj().Pkg() != tpk.Types {
					msg.Problems = append(msg.Problems, "field "+f.Name()+" is not a nasType IE")
				}
				if ts, ok := n.Underlying().(*types.Struct); ok {
					for j := 0; j < ts.NumFields(); j++ {
						tf := ts.Field(j)
						switch tf.Name() {
						case "Iei":
							ie.HasIEI = true
						case "Len":
							ie.LenWidth = bitWidth(tf.Type()) / 8
						case "Octet":
							if at, ok := tf.Type().Underlying().(*types.Array); ok {
								ie.ValueKind, ie.ValueSize = "array", at.Len()
							} else {
								ie.ValueKind, ie.ValueSize = "octet", 1
							}
						case "Buffer":
							ie.ValueKind, ie.ValueSize = "buffer", -1
						}
					}
				}
			}
			if ie.Optional {
				cn := name + f.Name() + "Type"
				if v, ok := consts[cn]; ok {
					ie.IEIConst, ie.IEI = cn, v
				} else {
					msg.Problems = append(msg.Problems, "no IEI constant "+cn)
				}
			}
			msg.IEs = append(msg.IEs, ie)
			byField[f.Name()] = ie
		}
		staged := map[string]nasTok{}
		if d.enc != nil {
			msg.EncPos = d.enc.Pos()
			for _, s := range d.enc.Body.List {
				switch x := s.(type) {
				case *ast.DeclStmt:
					// var tmp [2]byte: staging for a 2-octet length
					continue
				case *ast.ExprStmt:
					call, ok := x.X.(*ast.CallExpr)
					if ok {
						if t, okT, skip := encodeTok(pk.TypesInfo, call, staged); okT {
							if !skip {
								msg.EncMand = append(msg.EncMand, t)
							}
							continue
						}
					}
					if ok && isBinaryCall(call, "Write") {
						msg.EncMand = append(msg.EncMand, nasTok{Field: "?", Part: "Other", Arg: clip(exprStr(call.Args[2]))})
						continue
					}
					if ok && isIOCall(call) {
						msg.EncMand = append(msg.EncMand, nasTok{Field: "?", Part: "Other", Arg: clip(exprStr(call))})
						continue
					}
					if ok && isLogCall(call) {
						continue
					}
					msg.Problems = append(msg.Problems, "encode: unrecognised statement "+clip(exprStr(x.X)))
				case *ast.IfStmt:
					// if a.F != nil { writes }
					be, ok := x.Cond.(*ast.BinaryExpr)
					fld := ""
					if ok && be.Op == token.NEQ {
						if s2, ok := be.X.(*ast.SelectorExpr); ok {
							if id, ok := s2.X.(*ast.Ident); ok && id.Name == "a" && exprStr(be.Y) == "nil" {
								fld = s2.Sel.Name
							}
						}
					}
					if fld == "" || x.Else != nil || x.Init != nil {
						msg.Problems = append(msg.Problems, "encode: unrecognised if "+clip(exprStr(x.Cond)))
						continue
					}
					ie := byField[fld]
					if ie == nil {
						msg.Problems = append(msg.Problems, "encode: if on unknown field "+fld)
						continue
					}
					if len(ie.Enc) > 0 {
						msg.Problems = append(msg.Problems, "encode: optional IE "+fld+" written twice")
					}
					msg.EncOrder = append(msg.EncOrder, fld)
					for _, s3 := range x.Body.List {
						if _, isDecl := s3.(*ast.DeclStmt); isDecl {
							continue
						}
						es, ok := s3.(*ast.ExprStmt)
						if ok {
							if call, ok := es.X.(*ast.CallExpr); ok {
								if t, okT, skip := encodeTok(pk.TypesInfo, call, staged); okT {
									if !skip {
										ie.Enc = append(ie.Enc, t)
									}
									continue
								}
								if isBinaryCall(call, "Write") {
									ie.Enc = append(ie.Enc, nasTok{Field: fld, Part: "Other", Arg: clip(exprStr(call.Args[2]))})
									continue
								}
								if isIOCall(call) {
									ie.Enc = append(ie.Enc, nasTok{Field: fld, Part: "Other", Arg: clip(exprStr(call))})
									continue
								}
								if isLogCall(call) {
									continue
								}
							}
						}
						msg.Problems = append(msg.Problems, "encode: unrecognised statement in block of "+fld)
					}
				default:
					msg.Problems = append(msg.Problems, fmt.Sprintf("encode: unrecognised statement kind %T", s))
				}
			}
		} else {
			msg.Problems = append(msg.Problems, "no Encode method")
		}
		if d.dec != nil {
			msg.DecPos = d.dec.Pos()
			for _, s := range d.dec.Body.List {
				switch x := s.(type) {
				case *ast.AssignStmt:
					// buffer := bytes.NewBuffer(*byteArray)
					if len(x.Lhs) == 1 && exprStr(x.Lhs[0]) == "buffer" && strings.HasPrefix(exprStr(x.Rhs[0]), "bytes.NewBuffer(") {
						continue
					}
					msg.Problems = append(msg.Problems, "decode: unrecognised assignment "+clip(exprStr(x.Lhs[0])))
				case *ast.ExprStmt:
					call, ok := x.X.(*ast.CallExpr)
					if !ok {
						msg.Problems = append(msg.Problems, "decode: unrecognised statement")
						continue
					}
					if isBinaryCall(call, "Read") {
						if t, ok := tokOf(call.Args[2]); ok {
							msg.DecMand = append(msg.DecMand, t)
						} else {
							msg.DecMand = append(msg.DecMand, nasTok{Field: "?", Part: "Other", Arg: clip(exprStr(call.Args[2]))})
						}
						continue
					}
					if isIOCall(call) {
						msg.DecMand = append(msg.DecMand, nasTok{Field: "?", Part: "Other", Arg: clip(exprStr(call))})
						continue
					}
					if isLogCall(call) {
						continue
					}
					if f, mth, ok := selField(call.Fun); ok && mth == "SetLen" && len(call.Args) == 1 {
						if t, ok := tokOf(call.Args[0]); ok && t.Field == f && t.Part == "Len" {
							msg.DecMand = append(msg.DecMand, nasTok{Field: f, Part: "SetLen"})
							continue
						}
					}
					msg.Problems = append(msg.Problems, "decode: unrecognised statement "+clip(exprStr(x.X)))
				case *ast.ForStmt:
					m.decodeLoop(msg, x, byField, name)
				default:
					msg.Problems = append(msg.Problems, fmt.Sprintf("decode: unrecognised statement kind %T", s))
				}
			}
		} else {
			msg.Problems = append(msg.Problems, "no Decode method")
		}
	}
	// encoders outside the syntax-tree vocabulary: read on the abstract evaluator (c08enc.go)
	for _, msg := range m.Msgs {
		if msg.Name == "SecurityProtected5GSNASMessage" || !nasEncodeNeedsX(msg) {
			continue
		}
		if ok, why := nasEncodeModelX(c, m, msg); ok {
			c.Note("nasMessage.%s: the encoder is not spelled with binary.Write operands alone; its writes were read on the abstract evaluator", msg.Name)
		} else {
			msg.Problems = append(msg.Problems, "encode: also not readable on the abstract evaluator: "+why)
		}
	}
	return m
}

func (m *nasModel) decodeLoop(msg *nasMsg, loop *ast.ForStmt, byField map[string]*nasIE, name string) {
	cond := ""
	if loop.Cond != nil {
		cond = exprStr(loop.Cond)
	}
	var pre []string
	ieiName := "ieiN" // the variable holding the octet as read
	for _, s := range loop.Body.List {
		sw, ok := s.(*ast.SwitchStmt)
		if !ok {
			// ieiN, ieType := helper(buffer): the preamble lives in a helper shared by the decoders
			if as, isAs := s.(*ast.AssignStmt); isAs && as.Tok == token.DEFINE && len(as.Lhs) == 2 && len(as.Rhs) == 1 && len(pre) == 0 {
				if call, isCall := as.Rhs[0].(*ast.CallExpr); isCall && len(call.Args) == 1 && exprStr(call.Args[0]) == "buffer" {
					if fid, isId := call.Fun.(*ast.Ident); isId {
						msg.LoopFn = fid.Name
						ieiName = exprStr(as.Lhs[0])
						pre = append(pre, "octet, "+exprStr(as.Lhs[1])+" := @helper(buffer)")
						continue
					}
				}
			}
			pre = append(pre, stmtStr(s))
			continue
		}
		msg.Loop = "for " + cond + " { " + strings.Join(pre, "; ") + "; switch " + exprStr(sw.Tag) + " }"
		for _, cc := range sw.Body.List {
			cl := cc.(*ast.CaseClause)
			if cl.List == nil {
				if len(cl.Body) != 0 {
					msg.Problems = append(msg.Problems, "decode: default case is not empty")
				}
				continue
			}
			if len(cl.List) != 1 {
				msg.Problems = append(msg.Problems, "decode: case with several values")
				continue
			}
			cn := exprStr(cl.List[0])
			fld := ""
			var toks []nasTok
			for _, st := range cl.Body {
				switch x := st.(type) {
				case *ast.AssignStmt:
					if len(x.Lhs) != 1 || len(x.Rhs) != 1 {
						msg.Problems = append(msg.Problems, "decode: unrecognised assignment in case "+cn)
						continue
					}
					lhs := x.Lhs[0]
					// a.F = nasType.NewT(ieiN)
					if s2, ok := lhs.(*ast.SelectorExpr); ok {
						if id, ok := s2.X.(*ast.Ident); ok && id.Name == "a" {
							if call, ok := x.Rhs[0].(*ast.CallExpr); ok && len(call.Args) == 1 && exprStr(call.Args[0]) == ieiName && ieiName != "_" {
								fld = s2.Sel.Name
								toks = append(toks, nasTok{Field: fld, Part: "New", Arg: strings.TrimPrefix(exprStr(call.Fun), "nasType.")})
								continue
							}
						}
					}
					// a.F.Octet = ieiN
					if f, mth, ok := selField(lhs); ok && mth == "Octet" && exprStr(x.Rhs[0]) == ieiName && ieiName != "_" {
						toks = append(toks, nasTok{Field: f, Part: "ValueFromIei"})
						continue
					}
					msg.Problems = append(msg.Problems, "decode: unrecognised assignment in case "+cn+": "+clip(exprStr(lhs)))
				case *ast.ExprStmt:
					call, ok := x.X.(*ast.CallExpr)
					if ok && isBinaryCall(call, "Read") {
						if t, ok := tokOf(call.Args[2]); ok {
							toks = append(toks, t)
						} else {
							toks = append(toks, nasTok{Field: fld, Part: "Other", Arg: clip(exprStr(call.Args[2]))})
						}
						continue
					}
					if ok && isIOCall(call) {
						toks = append(toks, nasTok{Field: fld, Part: "Other", Arg: clip(exprStr(call))})
						continue
					}
					if ok && isLogCall(call) {
						continue
					}
					if ok {
						if f, mth, ok2 := selField(call.Fun); ok2 && mth == "SetLen" && len(call.Args) == 1 {
							if t, ok3 := tokOf(call.Args[0]); ok3 && t.Field == f && t.Part == "Len" {
								toks = append(toks, nasTok{Field: f, Part: "SetLen"})
								continue
							}
						}
					}
					msg.Problems = append(msg.Problems, "decode: unrecognised statement in case "+cn)
				default:
					msg.Problems = append(msg.Problems, "decode: unrecognised statement in case "+cn)
				}
			}
			if prev, dup := msg.DecCases[cn]; dup {
				msg.Problems = append(msg.Problems, "decode: constant "+cn+" handled twice ("+prev+")")
			}
			msg.DecCases[cn] = fld
			if ie := byField[fld]; ie != nil {
				if len(ie.Dec) > 0 {
					msg.Problems = append(msg.Problems, "decode: optional IE "+fld+" handled by two cases")
				}
				ie.Dec = toks
				for _, t := range toks {
					if t.Field != fld {
						msg.Problems = append(msg.Problems, "decode: case "+cn+" touches field "+t.Field+" while handling "+fld)
					}
				}
			} else {
				msg.Problems = append(msg.Problems, "decode: case "+cn+" does not allocate a field of the message")
			}
		}
	}
}

func stmtStr(s ast.Stmt) string {
	switch x := s.(type) {
	case *ast.DeclStmt:
		gd := x.Decl.(*ast.GenDecl)
		var ns []string
		for _, sp := range gd.Specs {
			vs := sp.(*ast.ValueSpec)
			for _, n := range vs.Names {
				ns = append(ns, n.Name+" "+exprStr(vs.Type))
			}
		}
		return "var " + strings.Join(ns, ",")
	case *ast.ExprStmt:
		return exprStr(x.X)
	case *ast.IfStmt:
		r := "if " + exprStr(x.Cond) + " {" + blockStr(x.Body) + "}"
		if e, ok := x.Else.(*ast.BlockStmt); ok {
			r += " else {" + blockStr(e) + "}"
		}
		return r
	case *ast.AssignStmt:
		return exprStr(x.Lhs[0]) + x.Tok.String() + exprStr(x.Rhs[0])
	}
	return fmt.Sprintf("%T", s)
}

func blockStr(b *ast.BlockStmt) string {
	var out []string
	for _, s := range b.List {
		out = append(out, stmtStr(s))
	}
	return strings.Join(out, "; ")
}

// format derives the TS 24.007 format of an IE as the code handles it.
func (ie *nasIE) format(toks []nasTok) string {
	var parts []string
	for _, t := range toks {
		switch t.Part {
		case "Iei", "Len", "Value", "ValueFromIei":
			parts = append(parts, t.Part)
		case "Other":
			parts = append(parts, "Other{"+t.Arg+"}")
		}
	}
	return strings.Join(parts, ",")
}

// wire describes the IE on the wire: format name, length-field width, fixed value size.
func (ie *nasIE) wire(enc []nasTok) string {
	hasLen := false
	half := false
	for _, t := range enc {
		if t.Part == "Len" {
			hasLen = true
		}
		if t.Part == "Other" {
			return "non-standard form (writes " + t.Arg + ")"
		}
	}
	if ie.Optional && len(enc) == 1 && enc[0].Part == "Value" {
		half = true
	}
	switch {
	case half:
		return "TV-half"
	case !ie.Optional && !hasLen:
		return fmt.Sprintf("V%d", ie.ValueSize)
	case !ie.Optional && hasLen && ie.LenWidth == 1:
		return "LV"
	case !ie.Optional && hasLen && ie.LenWidth == 2:
		return "LV-E"
	case ie.Optional && !hasLen:
		return fmt.Sprintf("TV%d", ie.ValueSize+1)
	case ie.Optional && hasLen && ie.LenWidth == 1:
		return "TLV"
	case ie.Optional && hasLen && ie.LenWidth == 2:
		return "TLV-E"
	}
	return "?"
}

// DumpNasModel prints the code-side message tables (developer aid).
func DumpNasModel(c *core.Ctx) {
	m := buildNasModel(c)
	var names []string
	for n := range m.Msgs {
		names = append(names, n)
	}
	sort.Strings(names)
	for _, n := range names {
		msg := m.Msgs[n]
		fmt.Printf("== %s\n", n)
		mand := map[string][]nasTok{}
		for _, t := range msg.EncMand {
			mand[t.Field] = append(mand[t.Field], t)
		}
		for _, ie := range msg.IEs {
			if ie.Optional {
				fmt.Printf("   O %-55s %-28s iei=%#02x %-8s enc=%v dec=%v\n", ie.Field, ie.TypeName, ie.IEI, ie.wire(ie.Enc), ie.Enc, ie.Dec)
			} else {
				fmt.Printf("   M %-55s %-28s %-8s\n", ie.Field, ie.TypeName, ie.wire(mand[ie.Field]))
			}
		}
		fmt.Printf("   loop: %s\n", msg.Loop)
		for _, p := range msg.Problems {
			fmt.Printf("   PROBLEM: %s\n", p)
		}
	}
}

// GenStdTable prints the code-side table as a Go literal (one-off generator used to
// bootstrap t24501.go, which is then vetted and corrected by hand against TS 24.501).
func GenStdTable(c *core.Ctx) {
	m := buildNasModel(c)
	var names []string
	for n := range m.Msgs {
		names = append(names, n)
	}
	sort.Strings(names)
	fmt.Println("var t24501Msg = map[string][]stdIE{")
	for _, n := range names {
		msg := m.Msgs[n]
		mand := map[string][]nasTok{}
		for _, t := range msg.EncMand {
			mand[t.Field] = append(mand[t.Field], t)
		}
		fmt.Printf("\t%q: {\n", n)
		for _, ie := range msg.IEs {
			if ie.Optional {
				fmt.Printf("\t\t{%q, true, %#02x, %q},\n", ie.Field, ie.IEI, ie.wire(ie.Enc))
			} else {
				fmt.Printf("\t\t{%q, false, 0, %q},\n", ie.Field, ie.wire(mand[ie.Field]))
			}
		}
		fmt.Println("\t},")
	}
	fmt.Println("}")
}

// uninterpreted lists the octet-moving statements of the message's codec the model could not
// classify (a helper, an unknown buffer method): the message is then undecided, not wrong.
func (msg *nasMsg) uninterpreted() []string {
	var out []string
	add := func(ts []nasTok) {
		for _, t := range ts {
			// only statements that handle the message's own fields in an unknown spelling; a constant or a
			// local written to the wire is an octet the tables do not know and stays a format error
			if t.Part == "Other" && (strings.Contains(t.Arg, "a.") || strings.Contains(t.Arg, "(a,") || strings.Contains(t.Arg, "(a)")) {
				out = append(out, t.Arg)
			}
		}
	}
	add(msg.EncMand)
	add(msg.DecMand)
	for _, ie := range msg.IEs {
		add(ie.Enc)
		add(ie.Dec)
	}
	return out
}
