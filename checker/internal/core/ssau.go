package core

import (
	"fmt"
	"regexp"
	"go/constant"
	"go/token"
	"go/types"
	"sort"
	"strings"

	"golang.org/x/tools/go/ssa"
)

// CalleeName renders the statically resolved callee of a call as
// "pkgpath.Func" or "pkgpath.(Recv).Method"; "" when the call is dynamic.
func CalleeName(c *ssa.CallCommon) string {
	if c.IsInvoke() {
		return "invoke:" + c.Method.FullName()
	}
	switch f := c.Value.(type) {
	case *ssa.Function:
		return FuncName(f)
	case *ssa.Builtin:
		return "builtin." + f.Name()
	case *ssa.MakeClosure:
		if fn, ok := f.Fn.(*ssa.Function); ok {
			return FuncName(fn)
		}
	}
	return ""
}

// FuncName renders "pkgpath.Func" or "pkgpath.Recv.Method" (pointer-ness dropped).
func FuncName(f *ssa.Function) string {
	if f == nil {
		return ""
	}
	if o := f.Origin(); o != nil {
		f = o
	}
	pkg := ""
	if f.Pkg != nil {
		pkg = f.Pkg.Pkg.Path()
	} else if f.Object() != nil && f.Object().Pkg() != nil {
		pkg = f.Object().Pkg().Path()
	}
	if f.Signature != nil && f.Signature.Recv() != nil {
		t := f.Signature.Recv().Type()
		if p, ok := t.(*types.Pointer); ok {
			t = p.Elem()
		}
		if n, ok := t.(*types.Named); ok {
			return pkg + "." + n.Obj().Name() + "." + f.Name()
		}
	}
	if f.Parent() != nil {
		return FuncName(f.Parent()) + "$" + f.Name()
	}
	return pkg + "." + f.Name()
}

// Calls lists the call instructions (call, go, defer) of fn in block/instruction order.
func Calls(fn *ssa.Function) []ssa.CallInstruction {
	var out []ssa.CallInstruction
	for _, b := range fn.Blocks {
		for _, in := range b.Instrs {
			if ci, ok := in.(ssa.CallInstruction); ok {
				out = append(out, ci)
			}
		}
	}
	return out
}

// CallsTo lists the calls in fn whose static callee is name.
func CallsTo(fn *ssa.Function, name string) []ssa.CallInstruction {
	var out []ssa.CallInstruction
	for _, ci := range Calls(fn) {
		if CalleeName(ci.Common()) == name {
			out = append(out, ci)
		}
	}
	sort.SliceStable(out, func(i, j int) bool { return out[i].Pos() < out[j].Pos() })
	return out
}

// Args returns receiver (if any) followed by the arguments.
func Args(c *ssa.CallCommon) []ssa.Value { return c.Args }

// ConstInt returns the integer constant a value denotes (through conversions).
func ConstInt(v ssa.Value) (int64, bool) {
	for {
		switch x := v.(type) {
		case *ssa.Const:
			if x.Value == nil {
				return 0, false
			}
			if x.Value.Kind() == constant.Int {
				if i, ok := constant.Int64Val(x.Value); ok {
					return i, true
				}
				if u, ok := constant.Uint64Val(x.Value); ok {
					return int64(u), true
				}
			}
			if x.Value.Kind() == constant.Float {
				f, _ := constant.Float64Val(x.Value)
				if f == float64(int64(f)) {
					return int64(f), true
				}
			}
			return 0, false
		case *ssa.Convert:
			v = x.X
		case *ssa.ChangeType:
			v = x.X
		default:
			return 0, false
		}
	}
}

// ConstBool returns the boolean constant a value denotes.
func ConstBool(v ssa.Value) (bool, bool) {
	if c, ok := v.(*ssa.Const); ok && c.Value != nil && c.Value.Kind() == constant.Bool {
		return constant.BoolVal(c.Value), true
	}
	return false, false
}

// ConstString returns the string constant a value denotes.
func ConstString(v ssa.Value) (string, bool) {
	if c, ok := v.(*ssa.Const); ok && c.Value != nil && c.Value.Kind() == constant.String {
		return constant.StringVal(c.Value), true
	}
	return "", false
}

// Pather renders SSA values as canonical access-path expressions that do not
// depend on local variable names: parameters are p0,p1,… (receiver first),
// loads are transparent, fields are .Name, calls are call:<callee>(args).
type Pather struct {
	fn    *ssa.Function
	memo  map[ssa.Value]string
	stack map[ssa.Value]bool
	// Stores forwards loads from local allocs that are stored exactly once.
	single map[*ssa.Alloc]ssa.Value
	origin map[*ssa.Alloc]ssa.Value
	// KeepConv keeps integer conversions visible as conv<T>(x)
	KeepConv bool
	// Loads, when set, gives the path-sensitive value of loads from address-taken
	// locals (filled by the path walker); memoisation is then per path.
	Loads map[*ssa.UnOp]string
	// Inline renders calls of same-package helpers that consist of a single
	// return of one value as that value (parameters substituted), depth <= 3.
	Inline bool
	depth  int
	// DistinctCalls gives repeated calls that render identically (same callee and
	// arguments, e.g. successive reads from a cursor) an ordinal suffix @2, @3, ….
	DistinctCalls bool
	// Bind substitutes SSA values before rendering: a loop variable by one of the
	// constants it takes, a merge (phi) by the alternative of one case. Rules that
	// unroll a constant-trip-count loop or split on a finite case set it (and call
	// ResetMemo) per iteration/case; it is nil otherwise.
	Bind map[ssa.Value]ssa.Value
	// ParamNames, when set, renders parameter i as ParamNames[i]: the rendering context
	// of a helper the path walker has descended into (its parameters are the caller's
	// argument expressions).
	ParamNames []string
	// InlineCalls asks the path walker (EventPaths*) to descend into a statically
	// resolved call instead of treating it as one event: the helper's events and
	// branches become part of the caller's paths (depth <= 2, no recursion).
	InlineCalls func(*ssa.Call) bool
}

// Fn is the function whose values the Pather renders.
func (p *Pather) Fn() *ssa.Function { return p.fn }

// Deref follows Bind.
func (p *Pather) Deref(v ssa.Value) ssa.Value {
	for i := 0; i < 8 && p.Bind != nil; i++ {
		b, ok := p.Bind[v]
		if !ok {
			break
		}
		v = b
	}
	return v
}

// Const folds an integer expression to a constant: literal constants, bound values,
// conversions and + - * << >> & | of foldable operands.
func (p *Pather) Const(v ssa.Value) (int64, bool) {
	return p.constD(v, 0)
}

func (p *Pather) constD(v ssa.Value, d int) (int64, bool) {
	v = p.Deref(v)
	if k, ok := ConstInt(v); ok {
		return k, true
	}
	if d > 12 {
		return 0, false
	}
	switch x := v.(type) {
	case *ssa.Convert:
		return p.constD(x.X, d+1)
	case *ssa.ChangeType:
		return p.constD(x.X, d+1)
	case *ssa.UnOp:
		// load of a literal's element: []T{…, c, …}[k]
		if ia, ok := x.X.(*ssa.IndexAddr); ok && x.Op == token.MUL && p.Bind != nil {
			if k, ok := p.constD(ia.Index, d+1); ok {
				if e, ok := p.litElem(ia.X, k, 0); ok {
					return p.constD(e, d+1)
				}
			}
		}
	case *ssa.BinOp:
		a, okA := p.constD(x.X, d+1)
		b, okB := p.constD(x.Y, d+1)
		if !okA || !okB {
			return 0, false
		}
		switch x.Op {
		case token.ADD:
			return a + b, true
		case token.SUB:
			return a - b, true
		case token.MUL:
			return a * b, true
		case token.SHL:
			if b >= 0 && b < 63 {
				return a << uint(b), true
			}
		case token.SHR:
			if b >= 0 && b < 63 && a >= 0 {
				return a >> uint(b), true
			}
		case token.AND:
			return a & b, true
		case token.OR:
			return a | b, true
		}
	}
	return 0, false
}

// litElem returns the value stored at position k of a slice literal (through
// constant-offset re-slicing and Bind).
func (p *Pather) litElem(base ssa.Value, k int64, d int) (ssa.Value, bool) {
	base = p.Deref(base)
	if d > 6 || k < 0 {
		return nil, false
	}
	if x, ok := base.(*ssa.Slice); ok {
		lo := int64(0)
		if x.Low != nil {
			l, ok := p.Const(x.Low)
			if !ok {
				return nil, false
			}
			lo = l
		}
		if a, ok := x.X.(*ssa.Alloc); ok {
			if elems, isLit := ArrayLitElems(a); isLit && int(lo+k) < len(elems) && elems[lo+k] != nil {
				return elems[lo+k], true
			}
			return nil, false
		}
		return p.litElem(x.X, lo+k, d+1)
	}
	return nil, false
}

// elemOf names element k of a slice/array value whose contents are known: a
// literal ([]T{a, b, c}[1] is b) or a constant-offset view of another value
// (x[2:][1] and x[:6][1] are x[3] and x[1]).
func (p *Pather) elemOf(base ssa.Value, k int64, d int) (string, bool) {
	base = p.Deref(base)
	if d > 6 || k < 0 {
		return "", false
	}
	switch x := base.(type) {
	case *ssa.Slice:
		lo := int64(0)
		if x.Low != nil {
			l, ok := p.Const(x.Low)
			if !ok {
				return "", false
			}
			lo = l
		}
		if x.High != nil {
			if h, ok := p.Const(x.High); ok && lo+k >= h {
				return "", false
			}
		}
		if a, ok := x.X.(*ssa.Alloc); ok {
			if elems, isLit := ArrayLitElems(a); isLit {
				if int(lo+k) >= len(elems) {
					return "", false
				}
				if e := elems[lo+k]; e != nil {
					return p.Path(e), true
				}
				return "0", true
			}
		}
		if s, ok := p.elemOf(x.X, lo+k, d+1); ok {
			return s, true
		}
		if x.Low == nil || lo == 0 {
			if _, isPhi := p.Deref(x.X).(*ssa.Phi); !isPhi {
				return fmt.Sprintf("%s[%d]", p.addrBase(x.X), k), true
			}
		}
	case *ssa.UnOp:
		if x.Op == token.MUL {
			if a, ok := x.X.(*ssa.Alloc); ok {
				if sv, ok := p.single[a]; ok {
					return p.elemOf(sv, k, d+1)
				}
			}
		}
	}
	return "", false
}

var paramTok = regexp.MustCompile(`(^|[^A-Za-z0-9_#])p(\d+)\b`)

// SubstParams replaces the parameter tokens p0,p1,… of a callee-relative path by
// the caller's argument paths.
func SubstParams(s string, actual []string) string {
	return paramTok.ReplaceAllStringFunc(s, func(m string) string {
		sub := paramTok.FindStringSubmatch(m)
		var i int
		fmt.Sscanf(sub[2], "%d", &i)
		if i < len(actual) {
			return sub[1] + actual[i]
		}
		return m
	})
}

func (p *Pather) inlineHelper(x *ssa.Call, args []string) (string, bool) {
	callee := x.Call.StaticCallee()
	if callee == nil || len(callee.Blocks) == 0 || p.depth >= 3 || callee == p.fn {
		return "", false
	}
	if callee.Pkg == nil || p.fn.Pkg == nil || callee.Pkg != p.fn.Pkg {
		return "", false
	}
	var ret *ssa.Return
	for _, b := range callee.Blocks {
		for _, in := range b.Instrs {
			if r, ok := in.(*ssa.Return); ok {
				if ret != nil {
					return "", false
				}
				ret = r
			}
		}
	}
	if ret == nil || len(ret.Results) != 1 {
		return "", false
	}
	sub := NewPather(callee)
	sub.Inline = true
	sub.depth = p.depth + 1
	return SubstParams(sub.Path(ret.Results[0]), args), true
}

// addrBase renders the base of a field/element address; a local that only holds
// a spilled copy of one value (e.g. an array parameter) is named by that value.
func (p *Pather) addrBase(v ssa.Value) string {
	if a, ok := v.(*ssa.Alloc); ok {
		if ov, ok := p.origin[a]; ok {
			return p.Path(ov)
		}
		if sv, ok := p.single[a]; ok {
			if _, isLit := p.arrayLit(a); !isLit {
				switch sv.(type) {
				case *ssa.Parameter, *ssa.UnOp, *ssa.Call, *ssa.Extract:
					return p.Path(sv)
				}
			}
		}
	}
	return p.Path(v)
}

// phiCyclic reports whether a phi depends on itself (a loop-carried variable).
func (p *Pather) phiCyclic(x *ssa.Phi) bool {
	seen := map[ssa.Value]bool{}
	var dep func(v ssa.Value, d int) bool
	dep = func(v ssa.Value, d int) bool {
		if v == ssa.Value(x) && d > 0 {
			return true
		}
		if seen[v] || d > 40 {
			return false
		}
		seen[v] = true
		in, ok := v.(ssa.Instruction)
		if !ok {
			return false
		}
		for _, op := range in.Operands(nil) {
			if *op != nil && dep(*op, d+1) {
				return true
			}
		}
		return false
	}
	return dep(x, 0)
}

// phiName names loop-carried phis iv1, iv2, … in block order (no identifiers).
func (p *Pather) phiName(x *ssa.Phi) string {
	n := 0
	for _, b := range p.fn.Blocks {
		for _, in := range b.Instrs {
			ph, ok := in.(*ssa.Phi)
			if !ok {
				break
			}
			if p.phiCyclic(ph) {
				n++
				if ph == x {
					return fmt.Sprintf("iv%d", n)
				}
			}
		}
	}
	return "iv?"
}

// ResetMemo forgets memoised paths (used when the path-sensitive load map changes).
func (p *Pather) ResetMemo() { p.memo = map[ssa.Value]string{} }

func NewPather(fn *ssa.Function) *Pather {
	p := &Pather{fn: fn, memo: map[ssa.Value]string{}, stack: map[ssa.Value]bool{}, single: map[*ssa.Alloc]ssa.Value{}}
	// single-store forwarding for local allocs (address not otherwise escaping
	// through calls is not required for the uses made of it: rules only use the
	// forwarded value to name what was stored).
	stores := map[*ssa.Alloc][]ssa.Value{}
	for _, b := range fn.Blocks {
		for _, in := range b.Instrs {
			if st, ok := in.(*ssa.Store); ok {
				if a, ok := st.Addr.(*ssa.Alloc); ok {
					stores[a] = append(stores[a], st.Val)
				}
			}
		}
	}
	p.origin = map[*ssa.Alloc]ssa.Value{}
	for a, vs := range stores {
		if len(vs) != 1 {
			continue
		}
		if !addressEscapes(a) {
			p.single[a] = vs[0]
		}
		// a local that is only the spilled copy of a parameter is named after it
		if _, isParam := vs[0].(*ssa.Parameter); isParam {
			p.origin[a] = vs[0]
		}
	}
	return p
}

// addressEscapes: the alloc's address is used other than by loads, stores to it and
// field/element addressing (e.g. handed to a callee that may write through it).
func addressEscapes(a *ssa.Alloc) bool {
	for _, r := range Referrers(a) {
		switch x := r.(type) {
		case *ssa.UnOp:
			if x.Op != token.MUL {
				return true
			}
		case *ssa.Store:
			if x.Val == ssa.Value(a) {
				return true
			}
		case *ssa.FieldAddr, *ssa.IndexAddr, *ssa.DebugRef:
		default:
			return true
		}
	}
	return false
}

func (p *Pather) Path(v ssa.Value) string {
	if v == nil {
		return "<nil>"
	}
	if p.Bind != nil {
		v = p.Deref(v)
	}
	if s, ok := p.memo[v]; ok {
		return s
	}
	if p.stack[v] {
		return "<cycle>"
	}
	p.stack[v] = true
	s := p.path(v)
	delete(p.stack, v)
	p.memo[v] = s
	return s
}

func fieldName(t types.Type, i int) string {
	if pt, ok := t.Underlying().(*types.Pointer); ok {
		t = pt.Elem()
	}
	if st, ok := t.Underlying().(*types.Struct); ok && i < st.NumFields() {
		return st.Field(i).Name()
	}
	return fmt.Sprintf("f%d", i)
}

func (p *Pather) path(v ssa.Value) string {
	switch x := v.(type) {
	case *ssa.Parameter:
		for i, q := range p.fn.Params {
			if q == x {
				if p.ParamNames != nil && i < len(p.ParamNames) {
					return p.ParamNames[i]
				}
				return fmt.Sprintf("p%d", i)
			}
		}
		return "param:" + x.Name()
	case *ssa.FreeVar:
		return "free:" + x.Name()
	case *ssa.Const:
		if x.Value == nil {
			return "nil"
		}
		if x.Value.Kind() == constant.String {
			return fmt.Sprintf("%q", constant.StringVal(x.Value))
		}
		return x.Value.ExactString()
	case *ssa.Global:
		pk := ""
		if x.Pkg != nil {
			pk = x.Pkg.Pkg.Path()
		}
		return "global:" + pk + "." + x.Name()
	case *ssa.Function:
		return "func:" + FuncName(x)
	case *ssa.FieldAddr:
		return p.addrBase(x.X) + "." + fieldName(x.X.Type(), x.Field)
	case *ssa.Field:
		return p.Path(x.X) + "." + fieldName(x.X.Type(), x.Field)
	case *ssa.UnOp:
		switch x.Op {
		case token.MUL:
			if p.Loads != nil {
				if sv, ok := p.Loads[x]; ok {
					return sv
				}
			}
			if a, ok := x.X.(*ssa.Alloc); ok {
				if sv, ok := p.single[a]; ok {
					return p.Path(sv)
				}
			}
			return p.Path(x.X)
		case token.ARROW:
			return "recv(" + p.Path(x.X) + ")"
		default:
			return x.Op.String() + p.Path(x.X)
		}
	case *ssa.BinOp:
		if p.Bind != nil {
			if k, ok := p.Const(x); ok {
				return fmt.Sprint(k)
			}
		}
		return "(" + p.Path(x.X) + x.Op.String() + p.Path(x.Y) + ")"
	case *ssa.Convert:
		if p.KeepConv {
			return "conv<" + x.Type().String() + ">(" + p.Path(x.X) + ")"
		}
		return p.Path(x.X)
	case *ssa.ChangeType:
		return p.Path(x.X)
	case *ssa.ChangeInterface:
		return p.Path(x.X)
	case *ssa.MakeInterface:
		return p.Path(x.X)
	case *ssa.SliceToArrayPointer:
		return p.Path(x.X)
	case *ssa.Slice:
		lo, hi := "", ""
		if x.Low != nil {
			lo = p.Path(x.Low)
		}
		if x.High != nil {
			hi = p.Path(x.High)
		}
		if lo == "" && hi == "" {
			return p.addrBase(x.X)
		}
		// x[a:][b:] == x[a+b:]
		if inner, ok := x.X.(*ssa.Slice); ok && x.High == nil && inner.High == nil && inner.Low != nil && x.Low != nil {
			if a, okA := ConstInt(inner.Low); okA {
				if b, okB := ConstInt(x.Low); okB {
					return fmt.Sprintf("%s[%d:]", p.Path(inner.X), a+b)
				}
			}
		}
		base := p.addrBase(x.X)
		if i := trailingOpenSlice(base); i >= 0 && x.High == nil {
			if b, okB := ConstInt(x.Low); okB {
				var a int64
				fmt.Sscanf(base[i+1:], "%d:]", &a)
				return fmt.Sprintf("%s[%d:]", base[:i], a+b)
			}
		}
		return base + "[" + lo + ":" + hi + "]"
	case *ssa.IndexAddr:
		if p.Bind != nil {
			if k, ok := p.Const(x.Index); ok {
				if s, ok := p.elemOf(x.X, k, 0); ok {
					return s
				}
			}
		}
		base := p.addrBase(x.X)
		if i := trailingOpenSlice(base); i >= 0 {
			if k, okK := ConstInt(x.Index); okK {
				var a int64
				fmt.Sscanf(base[i+1:], "%d:]", &a)
				return fmt.Sprintf("%s[%d]", base[:i], a+k)
			}
		}
		if i, a, b, okC := trailingClosedSlice(base); okC {
			// x[a:b][k] is x[a+k] (k inside the window; outside it the index panics)
			if k, okK := ConstInt(x.Index); okK && k >= 0 && a+k < b {
				return fmt.Sprintf("%s[%d]", base[:i], a+k)
			}
		}
		return base + "[" + p.Path(x.Index) + "]"
	case *ssa.Index:
		return p.Path(x.X) + "[" + p.Path(x.Index) + "]"
	case *ssa.Lookup:
		return p.Path(x.X) + "[" + p.Path(x.Index) + "]"
	case *ssa.Extract:
		return p.Path(x.Tuple) + "#" + fmt.Sprint(x.Index)
	case *ssa.Call:
		name := CalleeName(&x.Call)
		if name == "" {
			name = "dyn:" + p.Path(x.Call.Value)
		}
		var as []string
		for _, a := range x.Call.Args {
			as = append(as, p.Path(a))
		}
		if p.Inline {
			if s, ok := p.inlineHelper(x, as); ok {
				return s
			}
		}
		base := "call:" + name + "(" + strings.Join(as, ",") + ")"
		if p.DistinctCalls {
			n := 0
			for _, b := range p.fn.Blocks {
				for _, in := range b.Instrs {
					if c2, ok := in.(*ssa.Call); ok {
						if c2 == x {
							if n > 0 {
								return fmt.Sprintf("%s@%d", base, n+1)
							}
							return base
						}
						if CalleeName(&c2.Call) == name && len(c2.Call.Args) == len(x.Call.Args) {
							same := true
							for i, a := range c2.Call.Args {
								if p.Path(a) != as[i] {
									same = false
								}
							}
							if same {
								n++
							}
						}
					}
				}
			}
		}
		return base
	case *ssa.Phi:
		if p.phiCyclic(x) {
			return p.phiName(x)
		}
		set := map[string]bool{}
		for _, e := range x.Edges {
			set[p.Path(e)] = true
		}
		var parts []string
		for s := range set {
			parts = append(parts, s)
		}
		sort.Strings(parts)
		if len(parts) == 1 {
			return parts[0]
		}
		return "phi(" + strings.Join(parts, "|") + ")"
	case *ssa.Alloc:
		if lit, ok := p.arrayLit(x); ok {
			return lit
		}
		return "local:" + allocName(x)
	case *ssa.MakeSlice:
		base := "makeslice(" + p.Path(x.Len) + ")"
		// several make() calls of the same size are distinguished by their order
		n := 0
		for _, b := range p.fn.Blocks {
			for _, in := range b.Instrs {
				if ms, ok := in.(*ssa.MakeSlice); ok {
					if ms == x {
						if n > 0 {
							return fmt.Sprintf("%s#%d", base, n+1)
						}
						return base
					}
					if "makeslice("+p.Path(ms.Len)+")" == base {
						n++
					}
				}
			}
		}
		return base
	case *ssa.MakeMap:
		return "makemap"
	case *ssa.MakeClosure:
		return "closure:" + p.Path(x.Fn)
	case *ssa.TypeAssert:
		return p.Path(x.X)
	case *ssa.Range:
		return "range(" + p.Path(x.X) + ")"
	case *ssa.Next:
		return "next(" + p.Path(x.Iter) + ")"
	}
	return fmt.Sprintf("?%T", v)
}

// ArrayLitElems returns the element values of an array alloc that is only ever
// written by stores to constant indices (a composite/slice literal), indexed by
// position; ok=false when the alloc is written in any other way.
func ArrayLitElems(a *ssa.Alloc) (elems []ssa.Value, ok bool) {
	pt, isPtr := a.Type().Underlying().(*types.Pointer)
	if !isPtr {
		return nil, false
	}
	at, isArr := pt.Elem().Underlying().(*types.Array)
	if !isArr || at.Len() > 64 {
		return nil, false
	}
	elems = make([]ssa.Value, at.Len())
	stores := 0
	for _, r := range Referrers(a) {
		switch x := r.(type) {
		case *ssa.IndexAddr:
			idx, isConst := ConstInt(x.Index)
			if !isConst || idx < 0 || idx >= at.Len() {
				return nil, false
			}
			for _, r2 := range Referrers(x) {
				st, isStore := r2.(*ssa.Store)
				if !isStore || st.Addr != ssa.Value(x) {
					return nil, false
				}
				if elems[idx] != nil {
					return nil, false
				}
				elems[idx] = st.Val
				stores++
			}
		case *ssa.Slice:
		case *ssa.DebugRef:
		case *ssa.UnOp:
			if x.Op != token.MUL {
				return nil, false
			}
		default:
			return nil, false
		}
	}
	if stores == 0 {
		return nil, false
	}
	return elems, true
}

func (p *Pather) arrayLit(a *ssa.Alloc) (string, bool) {
	elems, ok := ArrayLitElems(a)
	if !ok {
		return "", false
	}
	var parts []string
	for _, e := range elems {
		if e == nil {
			parts = append(parts, "0")
		} else {
			parts = append(parts, p.Path(e))
		}
	}
	return "[" + strings.Join(parts, ",") + "]", true
}

// trailingOpenSlice returns the index of the '[' of a trailing "[<int>:]" or -1.
func trailingOpenSlice(s string) int {
	if !strings.HasSuffix(s, ":]") {
		return -1
	}
	i := strings.LastIndexByte(s, '[')
	if i < 0 {
		return -1
	}
	mid := s[i+1 : len(s)-2]
	if mid == "" {
		return -1
	}
	for _, r := range mid {
		if r < '0' || r > '9' {
			return -1
		}
	}
	return i
}

// trailingClosedSlice recognises a path ending in a constant window [a:b] (or [:b]).
func trailingClosedSlice(s string) (i int, a, b int64, ok bool) {
	if !strings.HasSuffix(s, "]") {
		return 0, 0, 0, false
	}
	i = strings.LastIndexByte(s, '[')
	if i < 0 {
		return 0, 0, 0, false
	}
	mid := s[i+1 : len(s)-1]
	c := strings.IndexByte(mid, ':')
	if c < 0 || c == len(mid)-1 {
		return 0, 0, 0, false
	}
	num := func(t string) (int64, bool) {
		if t == "" {
			return 0, true
		}
		var v int64
		for _, r := range t {
			if r < '0' || r > '9' {
				return 0, false
			}
			v = v*10 + int64(r-'0')
		}
		return v, true
	}
	a, okA := num(mid[:c])
	b, okB := num(mid[c+1:])
	return i, a, b, okA && okB
}

func allocName(a *ssa.Alloc) string {
	// locals are named by type + ordinal among same-typed allocs, not by identifier
	fn := a.Parent()
	n := 0
	for _, b := range fn.Blocks {
		for _, in := range b.Instrs {
			if o, ok := in.(*ssa.Alloc); ok {
				if o == a {
					return fmt.Sprintf("%s#%d", types.TypeString(a.Type(), func(p *types.Package) string { return p.Name() }), n)
				}
				if types.Identical(o.Type(), a.Type()) {
					n++
				}
			}
		}
	}
	for _, l := range fn.Locals {
		if l == a {
			return fmt.Sprintf("%s#L", types.TypeString(a.Type(), func(p *types.Package) string { return p.Name() }))
		}
	}
	return "?"
}

// Reaches reports whether block `to` is reachable from block `from` (from itself
// counts only through a cycle unless same block and later instruction).
func Reaches(from, to *ssa.BasicBlock) bool {
	seen := map[*ssa.BasicBlock]bool{}
	var st []*ssa.BasicBlock
	st = append(st, from.Succs...)
	for len(st) > 0 {
		b := st[len(st)-1]
		st = st[:len(st)-1]
		if seen[b] {
			continue
		}
		seen[b] = true
		if b == to {
			return true
		}
		st = append(st, b.Succs...)
	}
	return false
}

// InstrIndex returns the index of an instruction in its block.
func InstrIndex(in ssa.Instruction) int {
	for i, x := range in.Block().Instrs {
		if x == in {
			return i
		}
	}
	return -1
}

// Dominates reports whether instruction a dominates instruction b (a executes
// before b on every path from entry to b).
func Dominates(a, b ssa.Instruction) bool {
	if a.Block() == b.Block() {
		return InstrIndex(a) < InstrIndex(b)
	}
	return a.Block().Dominates(b.Block())
}

// MayPrecede reports whether a can execute before b on some path.
func MayPrecede(a, b ssa.Instruction) bool {
	if a.Block() == b.Block() {
		if InstrIndex(a) < InstrIndex(b) {
			return true
		}
		return Reaches(a.Block(), b.Block())
	}
	return Reaches(a.Block(), b.Block())
}

// Referrers of v (nil-safe).
func Referrers(v ssa.Value) []ssa.Instruction {
	r := v.Referrers()
	if r == nil {
		return nil
	}
	return *r
}

// EventPaths enumerates every entry→exit path of fn (loops unrolled at most
// `loopVisits` times per block) as sequences of events produced by `ev` for
// instructions; sequences are de-duplicated. Returns ok=false above cap paths.
func EventPaths(fn *ssa.Function, ev func(ssa.Instruction) string, loopVisits, cap int) (paths [][]string, ok bool) {
	return EventPathsB(fn, ev, nil, loopVisits, cap)
}

// EventPathsB is EventPaths with branch events: for every If whose condition
// `br` names (non-empty), the event "<name>=T" or "<name>=F" is recorded
// according to the successor taken.
func EventPathsB(fn *ssa.Function, ev func(ssa.Instruction) string, br func(ssa.Value) string, loopVisits, cap int) (paths [][]string, ok bool) {
	return EventPathsS(fn, nil, ev, br, loopVisits, cap)
}

// EventPathsS is EventPathsB with path-sensitive forwarding of stores to
// address-taken locals: when p is non-nil, loads of a local alloc are rendered as
// the value last stored on the current path.
func EventPathsS(fn *ssa.Function, p *Pather, ev func(ssa.Instruction) string, br func(ssa.Value) string, loopVisits, cap int) (paths [][]string, ok bool) {
	return eventPaths(fn, p, ev, br, loopVisits, cap, false)
}

// StopEvent, returned by an event function, ends the path at that instruction (the
// rule is only interested in what happens up to a probe point).
const StopEvent = "<stop>"

// EventPathsR is EventPathsS with merges resolved per path: while a path is walked,
// every phi is bound (Pather.Bind) to the alternative of the edge the path came in
// by, so the event and branch functions see `lb` as `0` or as `*p2` on that path
// instead of as phi(0|*p2).
func EventPathsR(fn *ssa.Function, p *Pather, ev func(ssa.Instruction) string, br func(ssa.Value) string, loopVisits, cap int) (paths [][]string, ok bool) {
	return eventPaths(fn, p, ev, br, loopVisits, cap, true)
}

func eventPaths(fn *ssa.Function, p *Pather, ev func(ssa.Instruction) string, br func(ssa.Value) string, loopVisits, cap int, resolve bool) (paths [][]string, ok bool) {
	env := map[*ssa.Alloc]string{}
	if resolve && p != nil {
		p.Bind = map[ssa.Value]ssa.Value{}
		defer func() { p.Bind = nil }()
	}
	if p != nil {
		p.Loads = map[*ssa.UnOp]string{}
		defer func() { p.Loads = nil; p.ResetMemo() }()
	}
	if len(fn.Blocks) == 0 {
		return nil, true
	}
	decided := map[string]int{}
	seen := map[string]bool{}
	count := 0
	visits := map[*ssa.BasicBlock]int{}
	var cur []string
	// frames of helpers the walk has descended into (Pather.InlineCalls): where to go on
	// in the caller when the helper returns, and the caller's rendering context
	type frame struct {
		retBlock *ssa.BasicBlock
		retIdx   int
		from     *ssa.BasicBlock
		saved    Pather
		callee   *ssa.Function
		call     *ssa.Call
	}
	var frames []frame
	if p != nil && p.InlineCalls != nil && p.Bind == nil {
		p.Bind = map[ssa.Value]ssa.Value{}
	}
	var from *ssa.BasicBlock
	record := func() bool {
		count++
		if count > cap {
			return false
		}
		k := strings.Join(cur, "\x00")
		if !seen[k] {
			seen[k] = true
			paths = append(paths, append([]string(nil), cur...))
		}
		return true
	}
	var walkAt func(b *ssa.BasicBlock, start int) bool
	walkAt = func(b *ssa.BasicBlock, start int) bool {
		if start == 0 {
			if visits[b] >= loopVisits {
				return true
			}
			visits[b]++
			defer func() { visits[b]-- }()
		}
		n0 := len(cur)
		defer func() { cur = cur[:n0] }()
		exit := false
		// bind the phis of this block to the edge taken
		var boundPhis []*ssa.Phi
		var prevBind []ssa.Value
		if start == 0 && (resolve || len(frames) > 0) && p != nil && from != nil {
			idx := -1
			for i, pr := range b.Preds {
				if pr == from {
					idx = i
				}
			}
			if idx >= 0 {
				// all phis read their operands simultaneously: evaluate against the old binding
				var vals []ssa.Value
				for _, in := range b.Instrs {
					ph, isPhi := in.(*ssa.Phi)
					if !isPhi {
						break
					}
					boundPhis = append(boundPhis, ph)
					prevBind = append(prevBind, p.Bind[ph])
					vals = append(vals, p.Deref(ph.Edges[idx]))
				}
				for i, ph := range boundPhis {
					if vals[i] == ssa.Value(ph) {
						delete(p.Bind, ph)
					} else {
						p.Bind[ph] = vals[i]
					}
				}
				p.ResetMemo()
			}
		}
		defer func() {
			for i, ph := range boundPhis {
				if prevBind[i] == nil {
					delete(p.Bind, ph)
				} else {
					p.Bind[ph] = prevBind[i]
				}
			}
		}()
		var savedEnv map[*ssa.Alloc]string
		var savedLoads []*ssa.UnOp
		if p != nil {
			savedEnv = make(map[*ssa.Alloc]string, len(env))
			for k, v := range env {
				savedEnv[k] = v
			}
		}
		defer func() {
			if p != nil {
				for k := range env {
					delete(env, k)
				}
				for k, v := range savedEnv {
					env[k] = v
				}
				for _, l := range savedLoads {
					delete(p.Loads, l)
				}
				p.ResetMemo()
			}
		}()
		for idx := start; idx < len(b.Instrs); idx++ {
			in := b.Instrs[idx]
			if p != nil {
				switch x := in.(type) {
				case *ssa.UnOp:
					if a, isA := x.X.(*ssa.Alloc); isA && x.Op == token.MUL {
						if sv, has := env[a]; has {
							p.Loads[x] = sv
							savedLoads = append(savedLoads, x)
							p.ResetMemo()
						}
					}
				case *ssa.Store:
					if a, isA := x.Addr.(*ssa.Alloc); isA {
						env[a] = p.Path(x.Val)
					}
				}
			}
			// descend into a helper the rule asked to see through
			if call, isCall := in.(*ssa.Call); isCall && p != nil && p.InlineCalls != nil && len(frames) < 2 {
				callee := call.Call.StaticCallee()
				onStack := callee == fn
				for _, f := range frames {
					if f.callee == callee {
						onStack = true
					}
				}
				if callee != nil && len(callee.Blocks) > 0 && !onStack && p.InlineCalls(call) {
					var args []string
					for _, a := range call.Call.Args {
						args = append(args, p.Path(a))
					}
					cp := NewPather(callee)
					cp.ParamNames = args
					cp.Loads, cp.Bind = p.Loads, p.Bind
					cp.KeepConv, cp.Inline, cp.DistinctCalls, cp.InlineCalls = p.KeepConv, p.Inline, p.DistinctCalls, p.InlineCalls
					frames = append(frames, frame{retBlock: b, retIdx: idx + 1, from: from, saved: *p, callee: callee, call: call})
					*p = *cp
					from = nil
					okc := walkAt(callee.Blocks[0], 0)
					fr := frames[len(frames)-1]
					frames = frames[:len(frames)-1]
					*p = fr.saved
					from = fr.from
					p.ResetMemo()
					return okc // the rest of this block was walked as the helper's continuation
				}
			}
			_, isRet := in.(*ssa.Return)
			if isRet && len(frames) > 0 {
				// the helper's own return is not an event of the function under analysis
			} else if e := ev(in); e == StopEvent {
				exit = true
				break
			} else if e != "" {
				cur = append(cur, e)
			}
			switch in.(type) {
			case *ssa.Return:
				if len(frames) > 0 {
					// the helper returns: go on in the caller, in the caller's context. A boolean result
					// is bound to the constant it has on this way through the helper; one that is still a
					// comparison splits the path like the branch it stands for.
					fr := frames[len(frames)-1]
					ret := in.(*ssa.Return)
					var outcomes []ssa.Value
					var labels []string
					if len(ret.Results) == 1 && fr.call != nil {
						rv := p.Deref(ret.Results[0])
						if k, isK := rv.(*ssa.Const); isK {
							outcomes, labels = []ssa.Value{k}, []string{""}
						} else if bt, isB := rv.Type().Underlying().(*types.Basic); isB && bt.Kind() == types.Bool && br != nil {
							if name := br(rv); name != "" {
								outcomes = []ssa.Value{ssa.NewConst(constant.MakeBool(true), rv.Type()), ssa.NewConst(constant.MakeBool(false), rv.Type())}
								labels = []string{name + "=T", name + "=F"}
							}
						}
					}
					if outcomes == nil {
						outcomes, labels = []ssa.Value{nil}, []string{""}
					}
					frames = frames[:len(frames)-1]
					calleeState, calleeFrom := *p, from
					okc := true
					for oi, ov := range outcomes {
						*p = fr.saved
						from = fr.from
						prev, had := p.Bind[fr.call]
						if ov != nil {
							p.Bind[fr.call] = ov
						}
						p.ResetMemo()
						n1 := len(cur)
						if labels[oi] != "" {
							cur = append(cur, labels[oi])
						}
						okc = walkAt(fr.retBlock, fr.retIdx)
						cur = cur[:n1]
						if ov != nil {
							if had {
								p.Bind[fr.call] = prev
							} else {
								delete(p.Bind, fr.call)
							}
						}
						if !okc {
							break
						}
					}
					*p = calleeState
					from = calleeFrom
					p.ResetMemo()
					frames = append(frames, fr)
					return okc
				}
				exit = true
			case *ssa.Panic:
				exit = true
				cur = append(cur, "<panic>")
			}
		}
		if exit || len(b.Succs) == 0 {
			return record()
		}
		brName := ""
		// a condition that folds to a constant under the current binding has one feasible side
		feasible := -1
		if p != nil && len(b.Succs) == 2 {
			if iff, isIf := b.Instrs[len(b.Instrs)-1].(*ssa.If); isIf {
				cv := p.Deref(iff.Cond)
				neg := false
				if u, isU := cv.(*ssa.UnOp); isU && u.Op == token.NOT {
					cv, neg = p.Deref(u.X), true
				}
				if k, isK := cv.(*ssa.Const); isK && k.Value != nil && k.Value.Kind() == constant.Bool {
					t := constant.BoolVal(k.Value) != neg
					feasible = 1
					if t {
						feasible = 0
					}
				}
			}
		}
		if br != nil && len(b.Succs) == 2 && feasible < 0 {
			if iff, isIf := b.Instrs[len(b.Instrs)-1].(*ssa.If); isIf {
				brName = br(iff.Cond)
			}
		}
		if resolve && p != nil && len(b.Succs) == 2 {
			if iff, isIf := b.Instrs[len(b.Instrs)-1].(*ssa.If); isIf {
				if bo, isBin := p.Deref(iff.Cond).(*ssa.BinOp); isBin {
					x, okX := p.Const(bo.X)
					y, okY := p.Const(bo.Y)
					if okX && okY {
						var t bool
						known := true
						switch bo.Op {
						case token.EQL:
							t = x == y
						case token.NEQ:
							t = x != y
						case token.LSS:
							t = x < y
						case token.LEQ:
							t = x <= y
						case token.GTR:
							t = x > y
						case token.GEQ:
							t = x >= y
						default:
							known = false
						}
						if known {
							feasible = 1
							if t {
								feasible = 0
							}
						}
					}
				}
			}
		}
		// a condition over parameters and constants only that was already decided on this
		// path keeps its outcome
		stable := resolve && brName != "" && !strings.Contains(brName, "call:") && !strings.Contains(brName, "local:") && !strings.Contains(brName, "iv")
		for si, s := range b.Succs {
			if feasible >= 0 && si != feasible {
				continue
			}
			setHere := false
			if stable {
				if prev, seenBefore := decided[brName]; seenBefore {
					if prev != si {
						continue
					}
				} else {
					decided[brName] = si
					setHere = true
				}
			}
			from = b
			n1 := len(cur)
			if brName != "" {
				if si == 0 {
					cur = append(cur, brName+"=T")
				} else {
					cur = append(cur, brName+"=F")
				}
			}
			okw := walkAt(s, 0)
			if setHere {
				delete(decided, brName)
			}
			if !okw {
				return false
			}
			cur = cur[:n1]
		}
		return true
	}
	ok = walkAt(fn.Blocks[0], 0)
	return paths, ok
}
