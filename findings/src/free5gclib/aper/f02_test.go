package aper

import "testing"

type bitRate struct {
	Value int64 `aper:"valueExt,valueLB:0,valueUB:4000000000000"`
}
type repetitionPeriod struct {
	Value int64 `aper:"valueLB:0,valueUB:131071"`
}
type amfSetID struct {
	Value BitString `aper:"sizeLB:10,sizeUB:10"`
}

// F02: extended INTEGER with a zero length octet panics in GetBitString.
func TestF02(t *testing.T) {
	defer func() {
		if r := recover(); r != nil {
			t.Fatalf("decoder panicked: %v", r)
		}
	}()
	var v bitRate
	err := UnmarshalWithParams([]byte{0x80, 0x00, 0x00}, &v, "")
	t.Logf("v=%v err=%v", v, err)
}

// F04: constrained INTEGER with a range above 64K: encoder and decoder disagree on the width of the length field.
func TestF04(t *testing.T) {
	for _, x := range []int64{0, 255, 256, 300, 65535, 65536, 70000, 131071} {
		b, err := Marshal(repetitionPeriod{Value: x})
		if err != nil {
			t.Errorf("%d: in-range value refused: %v", x, err)
			continue
		}
		var back repetitionPeriod
		if err := Unmarshal(b, &back); err != nil || back.Value != x {
			t.Errorf("%d: encodes to %x, decodes to %d (%v)", x, b, back.Value, err)
		}
	}
}

// F05: fixed-size BIT STRING of the wrong size is encoded without an error.
func TestF05(t *testing.T) {
	b, err := Marshal(amfSetID{Value: BitString{Bytes: []byte{0xff}, BitLength: 8}})
	if err == nil {
		t.Fatalf("8-bit value accepted for SIZE(10): %x", b)
	}
}
