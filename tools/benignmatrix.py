#!/usr/bin/env python3
"""benignmatrix.py [ids...] : apply every behaviour-preserving change under /verif/benign to a scratch copy of /repo's
current tree and run all 20 quick checks on it. Every check has to exit 0. Writes benign/matrix.json; prints what is not silent."""
import json, os, subprocess, sys, tempfile, shutil, re
from concurrent.futures import ThreadPoolExecutor
root='/verif/benign'
SV=os.environ.get('SV','/verif/bin/stgverif')   # SV=<dev binary>: no rebuild, matrix file not written
if 'SV' not in os.environ: subprocess.run(['/verif/check','list','quick'],stdout=subprocess.DEVNULL,check=True)
only=[a for a in sys.argv[1:] if not a.startswith('--')]
props=[a[2:] for a in sys.argv[1:] if a.startswith('--C')]  # --C07 restricts the checks run
def run(bid):
    d=os.path.join(root,bid)
    t=tempfile.mkdtemp(prefix='bm.',dir='/tmp')
    try:
        subprocess.run(['rsync','-a','--exclude','.git','/repo/',t+'/repo/'],check=True); subprocess.run(['git','init','-q'],cwd=t+'/repo')
        r=subprocess.run(['git','apply',os.path.join(d,'patch.diff')],cwd=t+'/repo',capture_output=True,text=True)
        if r.returncode!=0: return bid,{"error":"patch does not apply"}
        out={}
        for i in range(1,21):
            p='C%02d'%i
            if props and p[1:] not in [x[1:] for x in props] and p not in props: continue
            env=dict(os.environ,VERIF_REPO=t+'/repo',VERIF_EVIDENCE_DIR=t+'/ev')
            r=subprocess.run([SV,p,'quick'],capture_output=True,text=True,env=env)
            if r.returncode!=0:
                lines=[l[:260] for l in r.stdout.splitlines() if re.match(r'^\S+: R[\w.\-]+:',l) or l.startswith('UNDECIDED')]
                out[p]={"rc":r.returncode,"lines":lines[:6]}
        return bid,out
    finally:
        shutil.rmtree(t,ignore_errors=True)
ids=only or sorted(x for x in os.listdir(root) if os.path.isdir(os.path.join(root,x)) and os.path.exists(os.path.join(root,x,'patch.diff')))
res={}
mp=os.path.join(root,'matrix.json')
if os.path.exists(mp) and (only or props): res=json.load(open(mp))
with ThreadPoolExecutor(8) as ex:
    for bid,o in ex.map(run,ids):
        if props and bid in res and isinstance(res[bid],dict):
            for p in list(res[bid].keys()):
                if p in props: del res[bid][p]
            res[bid].update(o)
        else:
            res[bid]=o
        if res[bid]:
            print(bid,' '.join('%s=%s'%(p,v['rc']) for p,v in sorted(res[bid].items()) if isinstance(v,dict)))
            if only:
                for p,v in sorted(o.items()):
                    if isinstance(v,dict):
                        for l in v.get('lines',[]): print('    ',p,l)
if 'SV' not in os.environ: json.dump(dict(sorted(res.items())),open(mp,'w'),indent=1)
n=sum(1 for v in res.values() if not v); print(n,'of',len(res),'silent on all checks')
