package rules

import (
	"fmt"
	"go/types"
	"sort"
	"strings"

	"stgverif/internal/core"
)

// R4.align: X.691 10.1 - the bits inserted to reach an octet boundary are zero; a decoder for
// canonical PER refuses anything else. parseAlignBits is evaluated for each bit offset 1..7 of
// the cursor: on every path that returns no error, all 8-k remaining bits of the current octet
// were compared with zero (the path's facts say so), the cursor stands on the next octet
// boundary, and for offset 0 nothing is consumed.
func r4align(c *core.Ctx) {
	if !c.Once("r4align") {
		return
	}
	const R = "R4.align"
	c.Rule(R, "parseAlignBits accepts only all-zero padding up to the next octet boundary and leaves the cursor there")
	fn := mustFunc(c, pAper, "perBitData.parseAlignBits")
	c.Analysed(core.FuncName(fn))
	u64, uT := types.Typ[types.Uint64], types.Typ[types.Uint]
	for k := 0; k <= 7; k++ {
		key := fmt.Sprintf("aper.parseAlignBits:bitsOffset=%d", k)
		ex := core.NewExec()
		ex.OnCall = func(ev *core.AEvent, m *core.AMem) (core.AVal, bool) {
			if strings.HasSuffix(ev.Callee, ".perTrace") || strings.HasSuffix(ev.Callee, ".perBitLog") || ev.Callee == "fmt.Sprintf" {
				return core.OpaqueRet(ev), true
			}
			return core.AVal{}, false
		}
		mem := core.NewMem()
		mem.Store("p0.bitsOffset", core.AVal{K: core.AInt, Bits: core.ConstBits(uint64(k), 64)}, uT)
		mem.Store("p0.byteOffset", core.AVal{K: core.AInt, Bits: core.ConstBits(0, 64)}, u64)
		args := core.DefaultArgs(fn)
		args[0] = core.NonNilArg(args[0])
		outs, err := ex.Run(fn, args, mem)
		if err != nil || len(ex.Unsound) > 0 {
			c.SoftUndecided("%s: parseAlignBits could not be evaluated for bit offset %d (%v %v)", R, k, err, ex.Unsound)
			continue
		}
		nOK, bad := 0, ""
		for _, o := range outs {
			if o.Panicked || len(o.Ret) != 1 || o.Ret[0].K != core.ANil {
				continue // error (or refused) paths
			}
			nOK++
			bo, okB := o.Mem.Load("p0.bitsOffset", uT).ConstVal()
			by, okY := o.Mem.Load("p0.byteOffset", u64).ConstVal()
			wantBy := uint64(1)
			if k == 0 {
				wantBy = 0
			}
			if !okB || !okY || bo != 0 || by != wantBy {
				bad = fmt.Sprintf("the cursor ends at octet %d bit %d (constant: %v %v), want octet %d bit 0", by, bo, okY, okB, wantBy)
				continue
			}
			if k == 0 {
				continue
			}
			// which bits of octet 0 does the path know to be zero?
			zero := map[int]bool{}
			var fk []string
			for name, r := range o.Facts {
				fk = append(fk, fmt.Sprintf("%s=%v", name, r))
				if r[0] != 0 || r[1] != 0 {
					continue
				}
				var hi, lo int
				switch {
				case name == "p0.bytes[0]":
					hi, lo = 7, 0
				case strings.HasPrefix(name, "p0.bytes[0]<"):
					if _, e := fmt.Sscanf(strings.TrimPrefix(name, "p0.bytes[0]"), "<%d:%d>", &hi, &lo); e != nil {
						continue
					}
				default:
					continue
				}
				for i := lo; i <= hi; i++ {
					zero[i] = true
				}
			}
			for i := 0; i < 8-k; i++ {
				if !zero[i] {
					sort.Strings(fk)
					bad = fmt.Sprintf("padding bit %d of the octet (counting from the least significant) is not tested: facts of the accepting path: %s", i, strings.Join(fk, " "))
				}
			}
		}
		if nOK == 0 {
			c.SoftUndecided("%s: parseAlignBits has no accepting path for bit offset %d", R, k)
			continue
		}
		c.Check(bad == "", R, key, fn.Pos(), fmt.Sprintf("all %d padding bits compared with zero, cursor on the next octet", (8-k)%8), "parseAlignBits at bit offset %d: %s (X.691 10.1: padding bits are zero; a non-canonical encoding must be refused)", k, bad)
	}
}
