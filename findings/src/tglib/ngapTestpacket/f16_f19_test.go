package ngapTestpacket

import (
	"bytes"
	"free5gclib/ngap"
	"free5gclib/ngap/ngapType"
	"reflect"
	"testing"
)

// F19: BuildPDUSessionResourceReleaseCommand with a paging priority labels the IE
// id-PagingPriority (52) while the container alternative is RANPagingPriority (83):
// the encoder refuses the message.
func TestF19(t *testing.T) {
	pp := &ngapType.RANPagingPriority{Value: 1}
	pdu := BuildPDUSessionResourceReleaseCommand(1, 2, pp, nil, ngapType.PDUSessionResourceToReleaseListRelCmd{
		List: []ngapType.PDUSessionResourceToReleaseItemRelCmd{{PDUSessionID: ngapType.PDUSessionID{Value: 5}, PDUSessionResourceReleaseCommandTransfer: []byte{0x10}}}})
	if _, err := ngap.Encoder(pdu); err != nil {
		t.Fatalf("in-range arguments refused: %v", err)
	}
}

// plmns collects every PLMNIdentity found in a decoded PDU.
func plmns(v reflect.Value, out *[][]byte) {
	switch v.Kind() {
	case reflect.Ptr:
		if !v.IsNil() {
			plmns(v.Elem(), out)
		}
	case reflect.Struct:
		if p, ok := v.Interface().(ngapType.PLMNIdentity); ok {
			*out = append(*out, []byte(p.Value))
			return
		}
		for i := 0; i < v.NumField(); i++ {
			plmns(v.Field(i), out)
		}
	case reflect.Slice:
		if v.Type().Elem().Kind() == reflect.Uint8 {
			return
		}
		for i := 0; i < v.Len(); i++ {
			plmns(v.Index(i), out)
		}
	}
}

// F16: builders that hard-code a PLMN instead of the one announced at NG Setup.
func TestF16(t *testing.T) {
	plmn := []byte{0x21, 0x43, 0x65}
	BuildNGSetupRequest(plmn)
	for name, pdu := range map[string]ngapType.NGAPPDU{
		"HandoverNotify":              BuildHandoverNotify(1, 2),
		"RRCInactiveTransitionReport": BuildRRCInactiveTransitionReport(),
		"RanConfigurationUpdate":      BuildRanConfigurationUpdate(),
		"LocationReport":              BuildLocationReport(),
	} {
		b, err := ngap.Encoder(pdu)
		if err != nil {
			t.Errorf("%s: %v", name, err)
			continue
		}
		dec, err := ngap.Decoder(b)
		if err != nil {
			t.Errorf("%s: %v", name, err)
			continue
		}
		var got [][]byte
		plmns(reflect.ValueOf(dec), &got)
		if len(got) == 0 {
			t.Errorf("%s: no PLMN identity found", name)
		}
		for _, g := range got {
			if !bytes.Equal(g, plmn) {
				t.Errorf("%s: PLMN %x in the encoding, the PLMN announced at NG Setup is %x", name, g, plmn)
			}
		}
	}
}
