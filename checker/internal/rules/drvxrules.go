package rules

import (
	"fmt"
	"go/token"
	"go/types"
	"regexp"
	"strings"

	"stgverif/internal/core"
)

// Driver rules read off the evaluator model (drvx.go). Each has the same obligations (rule id
// and key) as its SSA predecessor in drivers.go / c01.go / c02.go / c11.go, which stays as the
// fallback for a driver the evaluator cannot finish.

func nm(v core.AVal) string { return core.ArgName(v) }

func hasMix(v core.AVal) bool {
	switch v.K {
	case core.AInt:
		for _, b := range v.Bits {
			if b.Kind == core.BMix {
				return true
			}
		}
	case core.AAgg, core.ATuple:
		for _, e := range v.Elems {
			if hasMix(e) {
				return true
			}
		}
	case core.AUnknown:
		return v.Path == "" || strings.HasPrefix(v.Path, "undef:") || strings.HasPrefix(v.Path, "phi:")
	}
	return false
}

// xUsable: the evaluator finished the driver; otherwise the reason is noted once and the SSA rule runs.
func xUsable(c *core.Ctx, x *xModel) bool {
	if x.err == "" && len(x.paths) > 0 {
		c.Analysed(core.FuncName(x.fn))
		return true
	}
	if c.Once("xmodel-note:" + x.fn.Name()) {
		c.Note("%s: evaluator model not used (%s); the rules fall back to the SSA model of the function alone", x.fn.Name(), x.err)
	}
	return false
}

func checkScriptX(c *core.Ctx, R string, x *xModel, script []expectedSend) {
	name := shortName(core.FuncName(x.fn))
	type fail struct {
		step int
		msg  string
	}
	var fails []fail
	for _, p := range x.paths {
		step, recv := 0, 0
		for _, e := range p.labels(x.ue) {
			switch {
			case e == "recv":
				recv++
			case strings.HasPrefix(e, "send:"):
				if step >= len(script) {
					fails = append(fails, fail{step, "unexpected extra message " + e + " after the scripted ones"})
					step++
					continue
				}
				s := script[step]
				if !labelMatches(s.label, e) {
					msg := fmt.Sprintf("step %d sends %s, the procedure requires %s (%s)", step+1, e, s.label, s.why)
					if e == "send:?" {
						for _, sd := range p.sends {
							if sd.wrap == nil {
								msg += ": " + sd.problem
								break
							}
						}
					}
					fails = append(fails, fail{step, msg})
				} else if recv < s.minRecv {
					fails = append(fails, fail{step, fmt.Sprintf("step %d (%s) is sent after %d receive(s) since the previous send; it answers a message of the AMF and needs %d", step+1, e, recv, s.minRecv)})
				}
				step++
				recv = 0
			}
		}
		if step < len(script) {
			fails = append(fails, fail{step, fmt.Sprintf("a path returns after %d of %d messages: %s is never sent", step, len(script), script[step].label)})
		}
	}
	bad := map[int]string{}
	for _, f := range fails {
		if _, seen := bad[f.step]; !seen {
			bad[f.step] = f.msg
		}
	}
	c.Sites(len(script))
	for i, s := range script {
		key := fmt.Sprintf("%s:step%d:%s", name, i+1, s.label)
		if msg, isBad := bad[i]; isBad {
			c.Fail(R, key, x.fn.Pos(), "%s", msg)
		} else {
			c.Ok(R, key, x.fn.Pos(), fmt.Sprintf("on all %d evaluated paths (helpers of the package entered); >= %d receive(s) before", len(x.paths), s.minRecv))
		}
	}
	for i, msg := range bad {
		if i >= len(script) {
			c.Fail(R, fmt.Sprintf("%s:step%d:extra", name, i+1), x.fn.Pos(), "%s", msg)
		}
	}
}

var tInt64 = types.Typ[types.Int64]

// idAt: the value ue.<field> holds when ev is called.
func idAt(ev *core.AEvent, ue, field string) core.AVal {
	return ev.Mem.Load(ue+"."+field, tInt64)
}

func checkIDsX(c *core.Ctx, R string, x *xModel) {
	name := shortName(core.FuncName(x.fn))
	type res struct {
		pos  token.Pos
		errs []string
		soft []string
	}
	out := map[string]*res{}
	var order []string
	for _, p := range x.paths {
		ord := ordinals{}
		for _, s := range p.sends {
			if s.wrap == nil {
				key := ord.next(name + ":send:unresolved")
				if out[key] == nil {
					out[key] = &res{pos: s.write.Site.Pos()}
					order = append(order, key)
				}
				out[key].errs = append(out[key].errs, s.problem)
				continue
			}
			key := ord.next(name + ":" + s.wrapper)
			r := out[key]
			if r == nil {
				r = &res{pos: s.wrap.Site.Pos()}
				out[key] = r
				order = append(order, key)
			}
			for i, role := range s.roles {
				if i >= len(s.wrap.Args) {
					break
				}
				var field, what string
				switch role {
				case "amf":
					field, what = "AmfUeNgapId", "AMF-UE-NGAP-ID"
				case "ran":
					field, what = "RanUeNgapId", "RAN-UE-NGAP-ID"
				default:
					continue
				}
				got, want := s.wrap.Args[i], idAt(s.wrap, x.ue, field)
				if hasMix(got) || hasMix(want) {
					r.soft = append(r.soft, fmt.Sprintf("%s argument of %s could not be followed", what, s.wrapper))
				} else if !core.SameAVal(got, want) {
					r.errs = append(r.errs, fmt.Sprintf("%s argument is %s, must be the UE's %s (which holds %s at this point)", what, clip(nm(got)), field, clip(nm(want))))
				}
			}
			if s.nas != nil && s.nas.enc != nil {
				if a := s.nas.enc.Args[0]; a.K != core.APtr || a.Path != x.ue {
					r.errs = append(r.errs, fmt.Sprintf("the NAS message is protected with the context of %s, not of the driver's UE", clip(nm(a))))
				}
			}
			if s.problem != "" {
				r.errs = append(r.errs, s.problem)
			}
		}
	}
	for _, key := range order {
		r := out[key]
		switch {
		case len(r.errs) > 0:
			c.Fail(R, key, r.pos, "%s: %s", name, strings.Join(dedup(r.errs), "; "))
		case len(r.soft) > 0:
			c.SoftUndecided("%s: %s", key, strings.Join(dedup(r.soft), "; "))
		default:
			c.Ok(R, key, r.pos, "identifiers of the driver's own UE in their roles (argument value = ue field at the call, on every evaluated path)")
		}
	}
	c.Sites(len(order))
}

func dedup(s []string) []string {
	seen := map[string]bool{}
	var out []string
	for _, x := range s {
		if !seen[x] {
			seen[x] = true
			out = append(out, x)
		}
	}
	return out
}

// firstOf returns the first event of the kind at or after trace position from.
func (p *xPath) firstOf(kind string, from int) *core.AEvent {
	for _, e := range p.events {
		if e.kind == kind && e.ev.Index >= from {
			return e.ev
		}
	}
	return nil
}

func (p *xPath) all(kind string) []*core.AEvent {
	var out []*core.AEvent
	for _, e := range p.events {
		if e.kind == kind {
			out = append(out, e.ev)
		}
	}
	return out
}

// calls: the uninterpreted calls of the path to the named function.
func (p *xPath) calls(callee string) []*core.AEvent {
	var out []*core.AEvent
	for i := range p.out.Trace {
		if p.out.Trace[i].Callee == callee {
			out = append(out, &p.out.Trace[i])
		}
	}
	return out
}

// agg collects one verdict per obligation over all paths: the first failure wins.
type agg struct {
	c     *core.Ctx
	R     string
	keys  []string
	fail  map[string]string
	soft  map[string]string
	ok    map[string]string
	pos   map[string]token.Pos
}

func newAgg(c *core.Ctx, R string) *agg {
	return &agg{c: c, R: R, fail: map[string]string{}, soft: map[string]string{}, ok: map[string]string{}, pos: map[string]token.Pos{}}
}

func (a *agg) check(cond bool, key string, pos token.Pos, okDetail, failFormat string, args ...interface{}) {
	if _, seen := a.pos[key]; !seen {
		a.keys = append(a.keys, key)
		a.pos[key] = pos
	}
	if cond {
		a.ok[key] = okDetail
	} else if _, had := a.fail[key]; !had {
		a.fail[key] = fmt.Sprintf(failFormat, args...)
	}
}

func (a *agg) undecided(key string, pos token.Pos, format string, args ...interface{}) {
	if _, seen := a.pos[key]; !seen {
		a.keys = append(a.keys, key)
		a.pos[key] = pos
	}
	a.soft[key] = fmt.Sprintf(format, args...)
}

func (a *agg) flush() {
	for _, k := range a.keys {
		switch {
		case a.fail[k] != "":
			a.c.Fail(a.R, k, a.pos[k], "%s", a.fail[k])
		case a.soft[k] != "":
			a.c.SoftUndecided("%s %s: %s", a.R, k, a.soft[k])
		default:
			a.c.Ok(a.R, k, a.pos[k], a.ok[k])
		}
	}
	a.c.Sites(len(a.keys))
}

// r1orderX: the ordering clauses of R1.order beyond the script.
func r1orderNGX(c *core.Ctx, R string, x *xModel) {
	ok := true
	for _, p := range x.paths {
		seenSend, recvAfter := false, false
		for _, e := range p.labels(x.ue) {
			if strings.HasPrefix(e, "send:") {
				seenSend = true
			}
			if e == "recv" && seenSend {
				recvAfter = true
			}
		}
		ok = ok && recvAfter
	}
	c.Check(ok, R, "ManageNGSetup:waits-for-response", x.fn.Pos(), "a receive follows the NG Setup Request on every evaluated path", "ManageNGSetup must wait for the NG Setup Response before UEs are registered")
}

func r1orderDeriveX(c *core.Ctx, R string, x *xModel) {
	ok, why := true, ""
	for _, p := range x.paths {
		sends, recvs, derive := 0, 0, -1
		amfAt2 := ""
		for _, e := range p.events {
			switch e.kind {
			case "write":
				sends++
			case "recv":
				recvs++
			case "derive":
				if derive >= 0 {
					ok, why = false, "the key derivation runs twice"
				}
				derive = sends
				if recvs < 1 {
					ok, why = false, "the key derivation runs before the Authentication Request is received"
				}
			case "wrap":
				if sends == 1 && amfAt2 == "" {
					amfAt2 = nm(idAt(e.ev, x.ue, "AmfUeNgapId"))
				}
			}
		}
		if derive != 1 {
			ok = false
			if why == "" {
				why = "the key derivation is not between Registration Request and Authentication Response"
			}
		}
		if !strings.HasPrefix(amfAt2, "rx#") {
			ok = false
			if why == "" {
				why = "AmfUeNgapId is not assigned from a received message between the first receive and the Authentication Response (it holds " + clip(amfAt2) + ")"
			}
		}
	}
	c.Check(ok, R, "RegisterUE:derive-and-learn-amf-id-before-answer", x.fn.Pos(), "DeriveRESstarAndSetKey once and AmfUeNgapId learned after the first receive, before the second message is built", "RegisterUE: %s", why)
}

var reIE0 = regexp.MustCompile(`^rx#\d+\.InitiatingMessage\.Value\.DownlinkNASTransport$`)

func r1idsX(c *core.Ctx, R string, x *xModel) {
	a := newAgg(c, R)
	fpos := x.fn.Pos()
	for _, p := range x.paths {
		// the decoded first downlink message
		nps := p.all("naspdu")
		if len(nps) != 1 {
			a.check(false, "RegisterUE:GetNasPdu", fpos, "", "RegisterUE must decode the Authentication Request with tglib.GetNasPdu exactly once (found %d calls on a path)", len(nps))
			continue
		}
		np := nps[0]
		firstRecv := p.firstOf("recv", 0)
		msg := np.Args[1]
		okMsg := msg.K == core.APtr && reIE0.MatchString(msg.Path) && np.Args[0].K == core.APtr && np.Args[0].Path == x.ue
		if okMsg {
			// the message decoded after the first receive, before the second send
			rx := p.byName[msg.Path[:strings.Index(msg.Path, ".")]]
			okMsg = rx != nil && firstRecv != nil && rx.Index > firstRecv.Index && rx.Index < np.Index
		}
		a.check(okMsg, "RegisterUE:GetNasPdu:args", np.Site.Pos(), "GetNasPdu(ue, decoded.InitiatingMessage.Value.DownlinkNASTransport)", "GetNasPdu must receive the UE and the DownlinkNASTransport of the decoded message, gets %s", clip(nm(msg)))
		// AMF id: IE 0 of that message, in every message built after it
		want := msg.Path + ".ProtocolIEs.List[0].Value.AMFUENGAPID.Value"
		nUse := 0
		srcOK, domOK := true, true
		got := ""
		for _, s := range p.sends {
			if s.wrap == nil {
				continue
			}
			for i, role := range s.roles {
				if role != "amf" || i >= len(s.wrap.Args) {
					continue
				}
				nUse++
				cell := nm(idAt(s.wrap, x.ue, "AmfUeNgapId"))
				if cell == x.ue+".AmfUeNgapId" {
					domOK = false // still what the caller handed in: not learned yet
				} else if cell != want {
					srcOK, got = false, cell
				}
			}
		}
		fin := nm(p.out.Mem.Load(x.ue+".AmfUeNgapId", tInt64))
		if fin != want && srcOK {
			srcOK, got = false, fin
		}
		a.check(srcOK, "RegisterUE:AmfUeNgapId:source", np.Site.Pos(), "IE 0 (AMF-UE-NGAP-ID) of the decoded DownlinkNASTransport", "AmfUeNgapId must be the AMF-UE-NGAP-ID (IE 0) of the DownlinkNASTransport that carried the Authentication Request; is %s", clip(got))
		a.check(domOK && nUse > 0, "RegisterUE:AmfUeNgapId:before-first-use", np.Site.Pos(), "learned before every message that carries it", "AmfUeNgapId is used in a message before it is learned from the AMF")
		// key derivation arguments
		ds := p.all("derive")
		if len(ds) != 1 {
			a.check(false, "RegisterUE:derive", fpos, "", "expected exactly one DeriveRESstarAndSetKey call, found %d", len(ds))
			continue
		}
		d := ds[0]
		npName := fmt.Sprintf("naspdu#%d", np.Index)
		subsT := d.Site.Call.Args[1].Type()
		okSubs := d.Args[0].K == core.APtr && d.Args[0].Path == x.ue && core.SameAVal(d.Args[1], d.Mem.Load(x.ue+".AuthenticationSubs", subsT)) && !hasMix(d.Args[1])
		a.check(okSubs, "RegisterUE:derive:subscription", d.Site.Pos(), "(ue, ue.AuthenticationSubs, …)", "the key derivation must use the UE's own subscription data")
		autnWant := "call:" + pNasT + ".AuthenticationParameterAUTN.GetAUTN(" + npName + ".GmmMessage.AuthenticationRequest.AuthenticationParameterAUTN)"
		randWant := "call:" + pNasT + ".AuthenticationParameterRAND.GetRANDValue(" + npName + ".GmmMessage.AuthenticationRequest.AuthenticationParameterRAND)"
		autn := elemsNamed(d.Args[2], d.Mem)
		rnd := elemsNamed(d.Args[3], d.Mem)
		a.check(autn == autnWant, "RegisterUE:derive:autn", d.Site.Pos(), "AUTN of the decoded Authentication Request", "AUTN argument must be GetAUTN() of the decoded Authentication Request, is %s", clip(autn))
		a.check(rnd == randWant, "RegisterUE:derive:rand", d.Site.Pos(), "RAND of the decoded Authentication Request", "RAND argument must be GetRANDValue() of the decoded Authentication Request, is %s", clip(rnd))
		a.check(nm(d.Args[5]) == "p1" && nm(d.Args[6]) == "p2", "RegisterUE:derive:mnc-mcc", d.Site.Pos(), "(…, mnc, mcc)", "the derivation must receive (mnc, mcc) in this order, gets (%s, %s)", clip(nm(d.Args[5])), clip(nm(d.Args[6])))
		for _, s := range p.sends {
			if s.nas == nil || s.nas.ctor == nil {
				continue
			}
			ct := s.nas.ctor
			switch s.nas.ctorName {
			case "GetAuthenticationResponse":
				w, isW := whole(ct.Args[0])
				a.check(isW && w == fmt.Sprintf("res#%d", d.Index), "RegisterUE:AuthenticationResponse:res-star", ct.Site.Pos(), "RES* = result of DeriveRESstarAndSetKey", "the Authentication Response must carry the RES* returned by DeriveRESstarAndSetKey, carries %s", clip(nm(ct.Args[0])))
			case "GetRegistrationRequest":
				k, isK := ct.Args[0].ConstVal()
				suci := nm(ct.Args[1])
				okSuci := suciOfOwnSupi(p, ct.Args[1], x.ue+".Supi", "len(p1)")
				okCap := nm(ct.Args[3]) == "call:"+pTglib+".RanUeContext.GetUESecurityCapability("+x.ue+")"
				a.check(isK && k == 1 && okSuci && okCap, "RegisterUE:RegistrationRequest:args", ct.Site.Pos(), "initial registration, SUCI of the UE's SUPI, the UE's security capability", "the Registration Request must be an initial registration (1) with the SUCI of the UE's own SUPI (MNC length of the configuration) and the UE's security capability; gets type %d, identity %s", k, clip(suci))
			}
		}
	}
	a.flush()
}

// elemsNamed: the common name of the elements of an array value or of the slice of a local
// array ("f(x)[0], f(x)[1], …" → "f(x)"); "" when the elements do not come from one call result.
func elemsNamed(v core.AVal, mem *core.AMem) string {
	var names []string
	switch v.K {
	case core.AAgg:
		for _, e := range v.Elems {
			names = append(names, nm(e))
		}
	case core.ASlice:
		if v.Lo < 0 || v.Len <= 0 {
			return nm(v)
		}
		for i := 0; i < v.Len; i++ {
			names = append(names, nm(mem.Load(fmt.Sprintf("%s[%d]", v.Path, v.Lo+i), types.Typ[types.Uint8])))
		}
	default:
		return nm(v)
	}
	base := ""
	for i, n := range names {
		suf := fmt.Sprintf("[%d]", i)
		if !strings.HasSuffix(n, suf) {
			return strings.Join(names, ",")
		}
		b := strings.TrimSuffix(n, suf)
		if i > 0 && b != base {
			return strings.Join(names, ",")
		}
		base = b
	}
	return base
}

// suciOfOwnSupi: v is (the content of) what EncodeSuci returned on this path for the digits of
// the named SUPI and the MNC length named lenName.
func suciOfOwnSupi(p *xPath, v core.AVal, supi, lenName string) bool {
	for _, ev := range p.calls(pStg + ".EncodeSuci") {
		if len(ev.Args) != 2 {
			continue
		}
		ret := nm(ev.Ret)
		if ret == "" {
			continue
		}
		name := nm(v)
		if v.K == core.AAgg && len(v.Elems) > 0 {
			name = nm(v.Elems[0])
		}
		if !strings.HasPrefix(name, ret) {
			continue
		}
		return strings.Contains(nm(ev.Args[0]), supi) && nm(ev.Args[1]) == lenName
	}
	return false
}

// r2relearnX: after a new InitialUEMessage the AMF-UE-NGAP-ID carried by later messages comes
// from a message received after it (on the paths where the answer has the expected type).
func r2relearnX(c *core.Ctx, R string, x *xModel, n string) {
	a := newAgg(c, R)
	for _, p := range x.paths {
		shape := true
		for k, isNil := range p.out.Nils {
			if strings.HasPrefix(k, "rx#") && isNil {
				shape = false
			}
		}
		if !shape {
			continue
		}
		var initial *xSend
		for _, s := range p.sends {
			if s.wrap == nil {
				continue
			}
			if s.wrapper == "GetInitialUEMessage" {
				initial = s
				continue
			}
			if initial == nil {
				continue
			}
			for i, role := range s.roles {
				if role != "amf" || i >= len(s.wrap.Args) {
					continue
				}
				cell := nm(idAt(s.wrap, x.ue, "AmfUeNgapId"))
				ok := false
				if strings.HasPrefix(cell, "rx#") && strings.HasSuffix(cell, ".Value.AMFUENGAPID.Value") {
					if rx := p.byName[cell[:strings.Index(cell, ".")]]; rx != nil && rx.Index > initial.write.Index {
						ok = true
					}
				}
				a.check(ok, shortName(core.FuncName(x.fn))+":"+s.wrapper+":amf-id-of-new-connection", s.wrap.Site.Pos(), "AmfUeNgapId assigned from the AMF's answer between the InitialUEMessage and this use", "%s opens a new UE-associated NG connection with InitialUEMessage and then answers with the AMF-UE-NGAP-ID of the previous connection: the AMF assigns the id of the new connection in its first downlink message (TS 38.413 8.6.1), it must be read from there", n)
			}
		}
	}
	a.flush()
}

var reSetupItem = regexp.MustCompile(`^(rx#\d+)\.InitiatingMessage\.Value\.PDUSessionResourceSetupRequest\.ProtocolIEs\.List\[[^\]]+\]\.Value\.PDUSessionResourceSetupListSUReq\.List\[0\]$`)

// r2reportEstablishX: what EstablishPDU returns, on the paths where the request carries a setup list.
func r2reportEstablishX(c *core.Ctx, R string, x *xModel) {
	ok, why := true, ""
	nDecided := 0
	dn := "call:" + pStg + ".DecodePDUSessionNASPDU("
	dt := "call:" + pStg + ".DecodePDUSessionResourceSetupRequestTransfer("
	for _, p := range x.paths {
		if len(p.out.Ret) != 3 {
			ok, why = false, "EstablishPDU does not return three values"
			continue
		}
		ip, teid, upf := nm(p.out.Ret[0]), nm(p.out.Ret[1]), nm(p.out.Ret[2])
		item := ""
		if strings.HasPrefix(ip, dn) && strings.HasSuffix(ip, ".PDUSessionNASPDU.Value)") {
			item = strings.TrimSuffix(strings.TrimPrefix(ip, dn), ".PDUSessionNASPDU.Value)")
		}
		if item == "" && (strings.HasPrefix(teid, dt+"nil)") || strings.Contains(ip, "(load:") || strings.Contains(ip, "(nil)")) {
			continue // no setup list found in the request (the zero item): outside what a conformant AMF sends
		}
		nDecided++
		wantT := dt + item + ".PDUSessionResourceSetupRequestTransfer)"
		if item == "" || teid != wantT+"#0" || upf != wantT+"#1" {
			ok = false
			if why == "" {
				why = fmt.Sprintf("returns (%s, %s, %s)", clip(ip), clip(teid), clip(upf))
			}
			continue
		}
		mm := reSetupItem.FindStringSubmatch(item)
		rxOK := false
		if mm != nil {
			// the message received after the establishment request was sent
			if rx := p.byName[mm[1]]; rx != nil && len(p.sends) > 0 && rx.Index > p.sends[0].write.Index {
				rxOK = true
			}
		}
		if !rxOK {
			ok = false
			if why == "" {
				why = "the setup item is not item 0 of the PDUSessionResourceSetupListSUReq of the message received in answer: " + clip(item)
			}
		}
	}
	if nDecided == 0 {
		ok, why = false, "no evaluated path returns values decoded from a setup item"
	}
	c.Check(ok, R, "EstablishPDU:returns-decoded-values", x.fn.Pos(), fmt.Sprintf("(DecodePDUSessionNASPDU(item.PDUSessionNASPDU), DecodePDUSessionResourceSetupRequestTransfer(item.Transfer)#0, #1) on %d evaluated paths", nDecided), "EstablishPDU must report the UE IP of the item's NAS PDU and the TEID and UPF address of the same item's transfer: %s", why)
}

// r11plmnDriversX: the three driver obligations of R11.plmn.
func r11plmnNGX(c *core.Ctx, R string, x *xModel) {
	a := newAgg(c, R)
	for _, p := range x.paths {
		ws := p.all("wrap")
		if len(ws) != 1 || ws[0].Callee != pTglib+".GetNGSetupRequest" {
			a.check(false, "stgutg.ManageNGSetup:GetNGSetupRequest", x.fn.Pos(), "", "expected one GetNGSetupRequest call")
			continue
		}
		plmn := ws[0].Args[1]
		ok := false
		for _, ev := range p.calls(pStg + ".EncodeSuci") {
			if len(ev.Args) == 2 && plmn.K == core.ASlice && plmn.Path == nm(ev.Ret)+".Buffer" && plmn.Lo == 1 && plmn.Len == 3 &&
				strings.Contains(nm(ev.Args[0]), "p2") && nm(ev.Args[1]) == "len(p3)" && ev.Index < ws[0].Index {
				ok = true
			}
		}
		a.check(ok, "stgutg.ManageNGSetup:plmn-from-suci", ws[0].Site.Pos(), "EncodeSuci(imsi, len(mnc)).Buffer[1:4]", "the announced PLMN must be octets 1..3 of EncodeSuci(IMSI, len(mnc)); is %s", clip(nm(plmn)))
	}
	a.flush()
}

func r11plmnUEX(c *core.Ctx, R string, x *xModel, name string) {
	ok := true
	for _, p := range x.paths {
		es := p.calls(pStg + ".EncodeSuci")
		if len(es) != 1 || len(es[0].Args) != 2 || !strings.Contains(nm(es[0].Args[0]), x.ue+".Supi") || nm(es[0].Args[1]) != "len(p1)" {
			ok = false
		}
	}
	c.Check(ok, R, "stgutg."+name+":suci-of-own-supi", x.fn.Pos(), "EncodeSuci(digits of ue.Supi, len(mnc))", "%s must build the SUCI from the UE's own SUPI digits and the configured MNC length", name)
}

// r1snnX: the serving network name handed to the derivation, per MNC length.
func r1snnX(c *core.Ctx, R string, x *xModel) bool {
	type verdict struct{ ok bool; got string }
	var vs []verdict
	var pos token.Pos
	for _, p := range x.paths {
		ds := p.all("derive")
		if len(ds) != 1 {
			return false
		}
		d := ds[0]
		pos = d.Site.Pos()
		sn := d.Args[4]
		var parts []string
		if sn.K != core.AStr || len(sn.Elems) == 0 {
			return false
		}
		lit := ""
		flushLit := func() {
			if lit != "" {
				parts = append(parts, fmt.Sprintf("%q", lit))
				lit = ""
			}
		}
		for _, e := range sn.Elems {
			if e.K == core.AStr && e.IsConst {
				lit += e.Const
				continue
			}
			flushLit()
			parts = append(parts, nm(e))
		}
		flushLit()
		got := strings.Join(parts, "+")
		// which MNC length does this path stand for?
		var is2 int = -1
		if f, okF := d.Facts["len(p1)"]; okF {
			if f[0] == 2 && f[1] == 2 {
				is2 = 1
			} else if f[0] > 2 || f[1] < 2 {
				is2 = 0
			}
		}
		if is2 < 0 {
			if f, okF := d.SFacts["len(p1)"]; okF {
				if f[0] == 2 && f[1] == 2 {
					is2 = 1
				} else if f[0] > 2 || f[1] < 2 {
					is2 = 0
				}
			}
		}
		if is2 < 0 {
			for _, cd := range d.Conds {
				switch cd {
				case "(call:builtin.len(p1)==2)=T", "(call:builtin.len(p1)!=2)=F", "(call:builtin.len(p1)==3)=F":
					is2 = 1
				case "(call:builtin.len(p1)==2)=F", "(call:builtin.len(p1)!=2)=T", "(call:builtin.len(p1)==3)=T":
					is2 = 0
				}
			}
		}
		pad := `"5G:mnc0"+p1+".mcc"+p2+".3gppnetwork.org"`
		nopad := `"5G:mnc"+p1+".mcc"+p2+".3gppnetwork.org"`
		switch is2 {
		case 1:
			vs = append(vs, verdict{got == pad, "for a 2-digit MNC the name is " + clip(got)})
		case 0:
			vs = append(vs, verdict{got == nopad, "for a 3-digit MNC the name is " + clip(got)})
		default:
			return false // one expression for both lengths (padding by format verb): the SSA rule reads it
		}
	}
	if len(vs) < 2 {
		return false
	}
	ok, why := true, ""
	for _, v := range vs {
		if !v.ok {
			ok, why = false, v.got
		}
	}
	c.Check(ok, R, "RegisterUE:serving-network-name", pos, "zero pad exactly when len(mnc) == 2 (evaluated per path)", "the serving network name must be 5G:mnc<3 digits>.mcc<mcc>.3gppnetwork.org (TS 24.501 9.12.1): %s", why)
	return true
}

// r2psiAcrossX: the drivers of one UE's session name the session alike: the identity a later
// driver puts into its NGAP answer (and NAS message) is the one EstablishPDU used. The abstract
// identities are compared by name after renaming each driver's UE parameter; identities that are
// spelled differently are folded on sample SUPI numbers, and only a sample on which they differ
// (a witness) makes a violation - otherwise the question stays open.
func r2psiAcrossX(c *core.Ctx, R string, xs map[string]*xModel) {
	type ident struct {
		v    core.AVal
		ue   string
		pos  token.Pos
		what string
	}
	psiCtors := map[string]bool{"GetUlNasTransport_PduSessionEstablishmentRequest": true, "GetUlNasTransport_PduSessionReleaseRequest": true,
		"GetUlNasTransport_PduSessionReleaseComplete": true, "GetUlNasTransport_PduSessionModificationRequest": true}
	ngap, nasl := map[string]ident{}, map[string]ident{}
	for _, n := range []string{"EstablishPDU", "ServiceRequest", "ReleasePDU", "ModifyPDU"} {
		x := xs[n]
		if x == nil || x.err != "" || len(x.paths) == 0 {
			continue
		}
		p := x.paths[0]
		for _, s := range p.sends {
			if s.wrap != nil {
				for i, role := range s.roles {
					if role == "pdu" && i < len(s.wrap.Args) {
						if _, had := ngap[n]; !had {
							ngap[n] = ident{s.wrap.Args[i], x.ue, s.wrap.Site.Pos(), s.wrapper}
						}
					}
				}
			}
			if s.nas != nil && s.nas.ctor != nil && psiCtors[s.nas.ctorName] {
				if _, had := nasl[n]; !had {
					nasl[n] = ident{s.nas.ctor.Args[0], x.ue, s.nas.ctor.Site.Pos(), s.nas.ctorName}
				}
			}
		}
	}
	norm := func(id ident) string { return strings.ReplaceAll(nm(id.v), id.ue+".", "ue.") }
	fold := func(id ident, sample uint64) (uint64, bool) {
		return core.EvalBits(id.v.Bits, func(src string) (uint64, bool) {
			if strings.HasPrefix(src, "call:strconv.Atoi(") && strings.Contains(src, id.ue+".Supi") {
				return sample, true
			}
			return 0, false
		})
	}
	compare := func(layer string, m map[string]ident) {
		ref, has := m["EstablishPDU"]
		if !has {
			return
		}
		for _, n := range []string{"ServiceRequest", "ReleasePDU", "ModifyPDU"} {
			id, ok := m[n]
			if !ok {
				continue
			}
			key := n + ":pdu-session-id:same-as-EstablishPDU:" + layer
			if id.v.K != core.AInt || ref.v.K != core.AInt || hasMix(id.v) || hasMix(ref.v) {
				c.SoftUndecided("%s %s: the identity could not be followed", R, key)
				continue
			}
			if norm(id) == norm(ref) {
				c.Ok(R, key, id.pos, "the same expression of the UE's SUPI as in EstablishPDU")
				continue
			}
			witness := ""
			for _, sample := range []uint64{1, 7, 15, 16, 23, 255, 256, 300, 9999, 10015, 123456} {
				a, okA := fold(ref, sample)
				b, okB := fold(id, sample)
				if okA && okB && a != b {
					witness = fmt.Sprintf("for a SUPI ending in %d EstablishPDU names session %d and %s names session %d", sample, a, n, b)
					break
				}
			}
			if witness != "" {
				c.Fail(R, key, id.pos, "%s (%s) and EstablishPDU derive the PDU session identity of one UE differently at the %s layer: %s - the network is asked about a session that was never established", n, id.what, layer, witness)
			} else {
				c.SoftUndecided("%s %s: %s spells the PDU session identity %s, EstablishPDU %s; no sample separates them and the rule cannot prove them equal", R, key, n, clip(norm(id)), clip(norm(ref)))
			}
		}
	}
	compare("NGAP", ngap)
	compare("NAS", nasl)
}
