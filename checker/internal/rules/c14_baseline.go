package rules

// c14Baseline: the index/slice sites of the decoder as they were when every one of them was either
// proved in range by a dominating guard or argued (c14Reasoned) — the reference for later trees
// (DESIGN §11.10). A site of this list that is found unproved has lost its guard: VIOLATION. A site
// that is not on the list and cannot be proved is new or rewritten code the prover does not
// understand: UNDECIDED.
var c14Baseline = map[string]bool{
	"aper.GetBitString:index:makeslice(((p2+7)>>3))[((((p1+p2)+7)>>3)-1)]": true,
	"aper.GetBitString:index:makeslice(((p2+7)>>3))[(((p2+7)>>3)-1)]": true,
	"aper.GetBitString:index:makeslice(((p2+7)>>3))[(iv1-1)]": true,
	"aper.GetBitString:index:p0[((((p1+p2)+7)>>3)-1)]": true,
	"aper.GetBitString:index:p0[(iv1-1)]": true,
	"aper.GetBitString:index:p0[iv1]": true,
	"aper.GetBitsValue:index:call:free5gclib/aper.GetBitString(p0,p1,p2)#0[(call:builtin.len(call:free5gclib/aper.GetBitString(p0,p1,p2)#0)-1)]": true,
	"aper.GetBitsValue:index:call:free5gclib/aper.GetBitString(p0,p1,p2)#0[iv2]": true,
	"aper.parseField:index:iv1[(iv5+1)]": true,
	"aper.parseField:index:iv1[iv7]": true,
	"aper.parseField:index:iv1[phi((iv5+1)|0)]": true,
	"aper.parseField:index:iv1[phi(0|call:free5gclib/aper.perBitData.getChoiceIndex(p1,phi(false|phi(false|true)),p2.valueUpperBound)#0)]": true,
	"aper.parseFieldParameters:index:call:strings.Split(p0,\",\")[(iv1+1)]": true,
	"aper.parseFieldParameters:slice:call:strings.Split(p0,\",\")[(iv1+1)][19:]": true,
	"aper.parseFieldParameters:slice:call:strings.Split(p0,\",\")[(iv1+1)][20:]": true,
	"aper.parseFieldParameters:slice:call:strings.Split(p0,\",\")[(iv1+1)][7:]": true,
	"aper.parseFieldParameters:slice:call:strings.Split(p0,\",\")[(iv1+1)][8:]": true,
	"aper.perBitData.getBitString:slice:p0.bytes[p0.byteOffset:]": true,
	"aper.perBitData.getBitsValue:slice:p0.bytes[p0.byteOffset:]": true,
	"aper.perBitData.parseBitString:slice:p0.bytes[p0.byteOffset:(p0.byteOffset+(((call:free5gclib/aper.perBitData.parseLength(p0,phi(-1|phi(((p3-phi(0|p2))+1)|-1)),local:*bool#0)#0+phi(0|phi(0|phi(0|p2))))+7)>>3))]": true,
	"aper.perBitData.parseBitString:slice:p0.bytes[p0.byteOffset:(p0.byteOffset+((phi(-1|p3)+7)>>3))]": true,
	"aper.perBitData.parseInteger:index:p0.bytes[p0.byteOffset]": true,
	"aper.perBitData.parseOctetString:slice:p0.bytes[p0.byteOffset:(p0.byteOffset+(call:free5gclib/aper.perBitData.parseLength(p0,phi(-1|phi(((p3-phi(0|p2))+1)|-1)),local:*bool#0)#0+phi(0|phi(0|phi(0|p2)))))]": true,
	"aper.perBitData.parseOctetString:slice:p0.bytes[p0.byteOffset:(p0.byteOffset+phi(-1|p3))]": true,
	"aper.perBitData.parseOpenType:slice:p0.bytes[p0.byteOffset:(p0.byteOffset+call:free5gclib/aper.perBitData.parseLength(p0,-1,local:*bool#0)#0)]": true,
	"aper.perBitData.parseSequenceOf:index:p0.bytes[p0.byteOffset]": true,
}
