package rules

import (
	"fmt"
	"go/types"
	"math"
	"os"
	"sort"
	"strings"

	"stgverif/internal/core"
)

// R3.int on the evaluator: appendInteger is interpreted with a symbolic non-negative value for
// (a) constrained ranges above 64K - lb = 0 and ub = 2^32-1 (RAN-UE-NGAP-ID) resp. 2^40-1
// (AMF-UE-NGAP-ID) - and (b) no bounds at all. Whatever counts the octets (a shift loop, bits.Len64),
// the paths split the values into classes; on each the number of octets emitted is a constant, and
// it has to be the X.691 number for *every* value of the class: the fewest octets that hold the
// non-negative value (10.5.7.4) resp. its two's complement form with the sign bit (10.8 / 12.2.6).
// The classes have to cover the whole range. Negative values and extension ranges stay with the
// form-based check below.

func octetsUnsigned(v int64) int {
	n := 1
	for v >>= 8; v > 0; v >>= 8 {
		n++
	}
	return n
}

func octetsTwosComplement(v int64) int { // v >= 0
	n := 1
	for v >>= 7; v > 0; v >>= 8 {
		n++
	}
	return n
}

func r3intX(c *core.Ctx, R string) (decided bool) {
	fn := mustFunc(c, pAper, "perRawBitData.appendInteger")
	if len(fn.Params) != 5 {
		return false
	}
	type setting struct {
		name   string
		ub     int64 // -1: no bounds
		octets func(int64) int
		lenBits int // width of the length field (constrained), 0: one aligned length octet
	}
	settings := []setting{
		{"constrained 0..2^32-1", 1<<32 - 1, octetsUnsigned, 2},
		{"constrained 0..2^40-1", 1<<40 - 1, octetsUnsigned, 3},
		{"unconstrained", -1, octetsTwosComplement, 0},
	}
	allOK := true
	for _, st := range settings {
		mem := core.NewMem()
		ex := core.NewExec()
		ex.MaxStates = 4096
		ex.ForkLen = func(string) bool { return true } // bits.Len64 of the value: one state per bit length
		ex.OnCall = func(ev *core.AEvent, _ *core.AMem) (core.AVal, bool) {
			n := ev.Callee
			switch {
			case n == pAper+".perRawBitData.putBitsValue", n == pAper+".perRawBitData.putBitString", n == pAper+".perRawBitData.appendConstraintValue":
				return core.NilArg(), true
			case n == pAper+".perRawBitData.appendAlignBits":
				return core.AVal{K: core.ATuple}, true
			case strings.HasSuffix(n, ".perTrace"), strings.HasSuffix(n, ".perRawBitLog"), strings.HasPrefix(n, "fmt."), strings.HasPrefix(n, "log."):
				return core.OpaqueRet(ev), true
			}
			return core.AVal{}, false
		}
		args := core.DefaultArgs(fn)
		args[0] = core.NonNilArg(args[0])
		args[1] = core.ArgBits("p1", 64, 63) // a non-negative value
		args[2] = core.AVal{K: core.AInt, Bits: core.ConstBits(0, 1)}
		if st.ub >= 0 {
			mem.Store("lbcell", core.AVal{K: core.AInt, Bits: core.ConstBits(0, 64)}, nil)
			mem.Store("ubcell", core.AVal{K: core.AInt, Bits: core.ConstBits(uint64(st.ub), 64)}, nil)
			args[3] = core.AVal{K: core.APtr, Path: "lbcell", NonNil: true}
			args[4] = core.AVal{K: core.APtr, Path: "ubcell", NonNil: true}
		} else {
			args[3], args[4] = core.NilArg(), core.NilArg()
		}
		mem.Store("p0.bytes", core.AVal{K: core.ASlice, Path: "out", Lo: 0, Len: 0, NonNil: true}, nil)
		outs, err := ex.Run(fn, args, mem)
		if err != nil || len(ex.Unsound) > 0 {
			c.Note("R3.int: evaluator model of appendInteger not used for %s (%v %v)", st.name, err, ex.Unsound)
			return false
		}
		type cls struct {
			lo, hi int64
			n      int
		}
		var classes []cls
		bad := ""
		top := st.ub
		if top < 0 {
			top = math.MaxInt64
		}
		for _, o := range outs {
			if o.Panicked {
				bad = "a path panics"
				continue
			}
			if len(o.Ret) == 1 && o.Ret[0].NonNil {
				continue // refusals (value above ub): R3.err's business
			}
			f, _ := core.FactOf(o.SFacts, o.Facts, "p1", 64)
			lo, hi := f[0], f[1]
			if os.Getenv("VERIF_DEBUG") != "" {
				fmt.Printf("DEBUG r3int outcome %s: f=%v facts=%v sfacts=%v excl=%v\n", st.name, f, o.Facts, o.SFacts, o.Excl)
			}
			if lo < 0 {
				lo = 0
			}
			// facts on the high part of the value (value >> k compared, or its bit length forked on)
			for k, ff := range o.Facts {
				var h, l int
				if n, _ := fmt.Sscanf(k, "p1<%d:%d>", &h, &l); n != 2 || !strings.HasPrefix(k, "p1<") {
					continue
				}
				if h < 62 {
					if ff[0] == 0 && ff[1] >= uint64(1)<<uint(h-l+1)-1 {
						continue // says nothing
					}
					c.Note("R3.int: evaluator model of appendInteger not used for %s (a path constrains the field %s of the value)", st.name, k)
					return false
				}
				if a := int64(ff[0] << uint(l)); a > lo {
					lo = a
				}
				if ff[1] < uint64(1)<<uint(62-l) {
					if b := int64(ff[1]<<uint(l) | (uint64(1)<<uint(l) - 1)); b < hi {
						hi = b
					}
				}
			}
			if hi > top {
				hi = top
			}
			if lo > hi {
				continue
			}
			// the value goes out last, with 8n bits
			var last *core.AEvent
			var lens []*core.AEvent
			for i := range o.Trace {
				if o.Trace[i].Callee == pAper+".perRawBitData.putBitsValue" {
					if last != nil {
						lens = append(lens, last)
					}
					last = &o.Trace[i]
				}
			}
			if last == nil || len(last.Args) != 3 {
				return false
			}
			nb, isK := last.Args[2].ConstVal()
			if !isK || nb%8 != 0 || nb == 0 {
				bad = fmt.Sprintf("%s, values %d..%d: the value is written with %s bits, not a constant number of octets", st.name, lo, hi, clip(core.ArgName(last.Args[2])))
				continue
			}
			n := int(nb / 8)
			if os.Getenv("VERIF_DEBUG") != "" {
				fmt.Printf("DEBUG r3int %s: [%d,%d] n=%d\n", st.name, lo, hi, n)
			}
			if st.octets(lo) != n || st.octets(hi) != n {
				bad = fmt.Sprintf("%s: values %d..%d are written with %d octets; X.691 asks for %d..%d", st.name, lo, hi, n, st.octets(lo), st.octets(hi))
			}
			// the announced length
			if st.lenBits > 0 {
				okLen := false
				for _, ev := range lens {
					if k, isKv := ev.Args[1].ConstVal(); isKv && int(k) == n-1 {
						if w, isKw := ev.Args[2].ConstVal(); isKw && int(w) == st.lenBits {
							okLen = true
						}
					}
				}
				if !okLen {
					bad = fmt.Sprintf("%s: values %d..%d go out in %d octets but the length field does not announce %d-1 in %d bits", st.name, lo, hi, n, n, st.lenBits)
				}
			} else {
				res := o.Mem.Load("p0.bytes", nil)
				okLen := false
				if res.K == core.ASlice && res.Lo >= 0 && res.Len >= 1 {
					v := o.Mem.Load(fmt.Sprintf("%s[%d]", res.Path, res.Lo+res.Len-1), types.Typ[types.Uint8])
					if k, isKv := v.ConstVal(); isKv && int(k) == n {
						okLen = true
					}
				}
				if !okLen {
					bad = fmt.Sprintf("%s: values %d..%d go out in %d octets but the length octet does not say %d", st.name, lo, hi, n, n)
				}
			}
			classes = append(classes, cls{lo, hi, n})
		}
		sort.Slice(classes, func(i, j int) bool { return classes[i].lo < classes[j].lo })
		next := int64(0)
		for _, cl := range classes {
			if cl.lo > next && bad == "" {
				bad = fmt.Sprintf("%s: no successful path takes the values %d..%d", st.name, next, cl.lo-1)
			}
			if cl.hi >= next {
				next = cl.hi + 1
				if cl.hi == math.MaxInt64 {
					next = math.MaxInt64
				}
			}
		}
		if next <= top && top != math.MaxInt64 && bad == "" {
			bad = fmt.Sprintf("%s: no successful path takes the values %d..%d", st.name, next, top)
		}
		if len(classes) < 2 {
			c.Note("R3.int: evaluator model of appendInteger not used for %s (%d value classes)", st.name, len(classes))
			return false
		}
		key := "aper.appendInteger:octet-count(" + strings.Fields(st.name)[0] + map[bool]string{true: ">64K:" + fmt.Sprint(st.lenBits), false: ""}[st.ub >= 0] + ")"
		c.Check(bad == "", R, key, fn.Pos(), fmt.Sprintf("%s: %d value classes, each written with the X.691 number of octets, length announced, range covered", st.name, len(classes)), "INTEGER octet count: %s", bad)
		if bad != "" {
			allOK = false
		}
	}
	_ = allOK
	return true
}
