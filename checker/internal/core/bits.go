package core

import (
	"regexp"
	"fmt"
	"sort"
	"go/constant"
	"go/token"
	"go/types"
	"strings"

	"golang.org/x/tools/go/ssa"
)

// Bit-provenance abstract domain (DESIGN A5): every integer SSA value is a vector
// of bits, each of which is the constant 0/1, a copy (possibly complemented) of
// bit j of an opaque source, or Mix (an unknown function). Sources are identified
// by their canonical access path, so two loads of the same field are one source.
// The transfer functions are exact for &, |, ^, shifts by constants, conversions
// and additions of bit-disjoint operands; everything else is Mix. Nothing is
// executed: this is an abstract interpretation over the SSA form.

type BitKind uint8

const (
	BZero BitKind = iota
	BOne
	BSrc
	BMix
)

// Bit of kind BSrc is a GF(2)-linear combination: the XOR of one or more source
// bits (Src/Idx is the first term, More holds the others, sorted), complemented
// when Neg. A single term is a plain copy of a source bit.
type Bit struct {
	Kind BitKind
	Src  string // canonical path of the (first) source value
	Idx  int    // bit index inside the source
	Neg  bool
	More string // further XOR terms "src.idx^src.idx", sorted; "" for a plain copy
}

func (b Bit) String() string {
	switch b.Kind {
	case BZero:
		return "0"
	case BOne:
		return "1"
	case BSrc:
		n := ""
		if b.Neg {
			n = "~"
		}
		if b.More != "" {
			return fmt.Sprintf("%s(%s.%d^%s)", n, b.Src, b.Idx, b.More)
		}
		return fmt.Sprintf("%s%s.%d", n, b.Src, b.Idx)
	}
	return "?"
}

func (b Bit) terms() []string {
	t := []string{fmt.Sprintf("%s.%d", b.Src, b.Idx)}
	if b.More != "" {
		t = append(t, strings.Split(b.More, "^")...)
	}
	return t
}

func fromTerms(ts []string, neg bool) Bit {
	if len(ts) == 0 {
		if neg {
			return Bit{Kind: BOne}
		}
		return Bit{Kind: BZero}
	}
	sort.Strings(ts)
	first := ts[0]
	i := strings.LastIndexByte(first, '.')
	idx := 0
	fmt.Sscanf(first[i+1:], "%d", &idx)
	return Bit{Kind: BSrc, Src: first[:i], Idx: idx, Neg: neg, More: strings.Join(ts[1:], "^")}
}

type BitVec []Bit // index 0 = least significant bit

type BitAnalyzer struct {
	P    *Pather
	memo map[ssa.Value]BitVec
	depth int
	// Assume gives, for a source path, the number of low bits that may be non-zero
	// (a fact the rule has established elsewhere, e.g. from a dominating guard).
	Assume map[string]int
	// AssumeFn is the same for families of sources (e.g. every call of a helper
	// whose result range the rule has established).
	AssumeFn func(src string) (int, bool)
	// IA/Ctx: when set, the value range an opaque source is known to have at block
	// Ctx (from dominating comparisons) bounds its significant bits.
	IA  *IntervalAnalyzer
	Ctx *ssa.BasicBlock
	// Keep names callees that stay opaque sources of their own (never summarised
	// through their body): a rule that wants to see "MULalpha(x)" as one term.
	Keep map[string]bool
}

func NewBitAnalyzer(fn *ssa.Function) *BitAnalyzer {
	return &BitAnalyzer{P: NewPather(fn), memo: map[ssa.Value]BitVec{}}
}

func widthOf(t types.Type) int {
	if b, ok := t.Underlying().(*types.Basic); ok {
		switch b.Kind() {
		case types.Int8, types.Uint8:
			return 8
		case types.Int16, types.Uint16:
			return 16
		case types.Int32, types.Uint32:
			return 32
		case types.Int64, types.Uint64, types.Int, types.Uint, types.Uintptr, types.UntypedInt:
			return 64
		case types.Bool:
			return 1
		}
	}
	return 0
}

func isSigned(t types.Type) bool {
	if b, ok := t.Underlying().(*types.Basic); ok {
		return b.Info()&types.IsInteger != 0 && b.Info()&types.IsUnsigned == 0
	}
	return false
}

func (a *BitAnalyzer) opaque(v ssa.Value) BitVec {
	w := widthOf(v.Type())
	if w == 0 {
		return nil
	}
	src := a.P.Path(v)
	out := make(BitVec, w)
	lim := w
	if n, ok := a.Assume[src]; ok && n < w {
		lim = n
	}
	if a.AssumeFn != nil {
		if n, ok := a.AssumeFn(src); ok && n < lim {
			lim = n
		}
	}
	if a.IA != nil && a.Ctx != nil {
		if iv := a.IA.At(v, a.Ctx); iv.Known && iv.Lo >= 0 {
			n := 0
			for x := iv.Hi; x > 0; x >>= 1 {
				n++
			}
			if n < lim {
				lim = n
			}
		}
	}
	for i := range out {
		if i < lim {
			out[i] = Bit{Kind: BSrc, Src: src, Idx: i}
		}
	}
	return out
}

func constBits(val uint64, w int) BitVec {
	out := make(BitVec, w)
	for i := 0; i < w; i++ {
		if val>>uint(i)&1 == 1 {
			out[i] = Bit{Kind: BOne}
		}
	}
	return out
}

func mixVec(w int) BitVec {
	out := make(BitVec, w)
	for i := range out {
		out[i] = Bit{Kind: BMix}
	}
	return out
}

// Bits computes the bit vector of an integer value.
func (a *BitAnalyzer) Bits(v ssa.Value) BitVec {
	if a.P.Bind != nil {
		v = a.P.Deref(v)
	}
	if r, ok := a.memo[v]; ok {
		return r
	}
	w := widthOf(v.Type())
	if w == 0 {
		return nil
	}
	a.memo[v] = mixVec(w) // cycle guard (phi loops)
	r := a.bits(v, w)
	a.memo[v] = r
	return r
}

func (a *BitAnalyzer) bits(v ssa.Value, w int) BitVec {
	switch x := v.(type) {
	case *ssa.Const:
		if x.Value == nil {
			return mixVec(w)
		}
		cv := constant.ToInt(x.Value)
		if cv.Kind() != constant.Int {
			return mixVec(w)
		}
		if u, ok := constant.Uint64Val(cv); ok {
			return constBits(u, w)
		}
		if i, ok := constant.Int64Val(cv); ok {
			return constBits(uint64(i), w)
		}
		return mixVec(w)
	case *ssa.Convert:
		src := a.Bits(x.X)
		if src == nil {
			return a.opaque(v)
		}
		return resize(src, w, isSigned(x.X.Type()))
	case *ssa.ChangeType:
		src := a.Bits(x.X)
		if src == nil {
			return a.opaque(v)
		}
		return resize(src, w, isSigned(x.X.Type()))
	case *ssa.UnOp:
		if x.Op == token.XOR {
			src := a.Bits(x.X)
			out := make(BitVec, w)
			for i := range out {
				out[i] = notBit(src[i])
			}
			return out
		}
		return a.opaque(v)
	case *ssa.Phi:
		var acc BitVec
		for _, e := range x.Edges {
			b := a.Bits(e)
			if b == nil {
				return mixVec(w)
			}
			if acc == nil {
				acc = append(BitVec(nil), b...)
				continue
			}
			for i := range acc {
				if acc[i] != b[i] {
					acc[i] = Bit{Kind: BMix}
				}
			}
		}
		if acc == nil {
			return mixVec(w)
		}
		return acc
	case *ssa.BinOp:
		l, r := a.Bits(x.X), a.Bits(x.Y)
		switch x.Op {
		case token.AND, token.OR, token.XOR, token.AND_NOT:
			if l == nil || r == nil || len(l) != w || len(r) != w {
				return mixVec(w)
			}
			out := make(BitVec, w)
			for i := 0; i < w; i++ {
				switch x.Op {
				case token.AND:
					out[i] = andBit(l[i], r[i])
				case token.OR:
					out[i] = orBit(l[i], r[i])
				case token.XOR:
					out[i] = xorBit(l[i], r[i])
				case token.AND_NOT:
					out[i] = andBit(l[i], notBit(r[i]))
				}
			}
			return out
		case token.SHL, token.SHR:
			if l == nil {
				return mixVec(w)
			}
			n, ok := a.P.Const(x.Y)
			if !ok {
				return mixVec(w)
			}
			out := make(BitVec, w)
			for i := 0; i < w; i++ {
				var j int
				if x.Op == token.SHL {
					j = i - int(n)
				} else {
					j = i + int(n)
				}
				if j >= 0 && j < w {
					out[i] = l[j]
				} else if x.Op == token.SHR && isSigned(x.X.Type()) && l[w-1].Kind != BZero {
					out[i] = Bit{Kind: BMix}
				} else {
					out[i] = Bit{Kind: BZero}
				}
			}
			return out
		case token.QUO, token.REM, token.MUL:
			// by a constant power of two: unsigned division is a right shift, the remainder a mask,
			// multiplication a left shift
			k, ok := a.P.Const(x.Y)
			src := l
			if !ok && x.Op == token.MUL {
				k, ok = a.P.Const(x.X)
				src = r
			}
			if ok && k > 0 && k&(k-1) == 0 && src != nil && len(src) == w && (x.Op == token.MUL || !isSigned(x.X.Type())) {
				n := 0
				for kk := k; kk > 1; kk >>= 1 {
					n++
				}
				out := make(BitVec, w)
				for i := 0; i < w; i++ {
					out[i] = Bit{Kind: BZero}
					switch {
					case x.Op == token.QUO && i+n < w:
						out[i] = src[i+n]
					case x.Op == token.REM && i < n:
						out[i] = src[i]
					case x.Op == token.MUL && i-n >= 0:
						out[i] = src[i-n]
					}
				}
				return out
			}
		case token.ADD:
			if l == nil || r == nil || len(l) != w || len(r) != w {
				return mixVec(w)
			}
			disjoint := true
			for i := 0; i < w; i++ {
				if l[i].Kind != BZero && r[i].Kind != BZero {
					disjoint = false
				}
			}
			if disjoint {
				out := make(BitVec, w)
				for i := 0; i < w; i++ {
					out[i] = orBit(l[i], r[i])
				}
				return out
			}
			// bits below the lowest position where both may be non-zero are exact
			out := make(BitVec, w)
			carry := false
			for i := 0; i < w; i++ {
				if carry {
					out[i] = Bit{Kind: BMix}
					continue
				}
				if l[i].Kind != BZero && r[i].Kind != BZero {
					carry = true
					out[i] = Bit{Kind: BMix}
					continue
				}
				out[i] = orBit(l[i], r[i])
			}
			return out
		}
		return a.opaque(v)
	case *ssa.Call:
		// a pure integer helper applied to constants is the constant it folds to
		if callee := x.Call.StaticCallee(); callee != nil && len(x.Call.Args) > 0 {
			var ks []int64
			for _, arg := range x.Call.Args {
				k, ok := a.P.Const(arg)
				if !ok {
					ks = nil
					break
				}
				ks = append(ks, k)
			}
			if ks != nil {
				if k, ok := FoldCall(callee, ks); ok {
					return constBits(uint64(k), w)
				}
			}
		}
		if r := a.inlineCall(x, w); r != nil {
			return r
		}
		return a.opaque(v)
	}
	return a.opaque(v)
}

// inlineCall summarises a call of a small straight-line function (single block,
// single integer result, no stores, depth <= 3) by its own bit vector with the
// callee's parameters replaced by the caller's arguments.
func (a *BitAnalyzer) inlineCall(call *ssa.Call, w int) BitVec {
	callee := call.Call.StaticCallee()
	if callee == nil || len(callee.Blocks) != 1 || a.depth >= 3 || a.Keep[callee.Name()] {
		return nil
	}
	var ret ssa.Value
	for _, in := range callee.Blocks[0].Instrs {
		switch x := in.(type) {
		case *ssa.Store, *ssa.Go, *ssa.Defer, *ssa.MapUpdate, *ssa.Send:
			return nil
		case *ssa.Return:
			if len(x.Results) != 1 {
				return nil
			}
			ret = x.Results[0]
		}
	}
	if ret == nil {
		return nil
	}
	sub := NewBitAnalyzer(callee)
	sub.depth = a.depth + 1
	sub.Keep = a.Keep
	// constant arguments are bound to the callee's parameters, so masks and shift counts
	// that depend on them fold (SetBitField(octet, 4, 2, v): the mask and the shift are constants)
	for pi, prm := range callee.Params {
		if pi < len(call.Call.Args) {
			if k, ok := a.P.Const(call.Call.Args[pi]); ok && widthOf(prm.Type()) > 0 {
				if sub.P.Bind == nil {
					sub.P.Bind = map[ssa.Value]ssa.Value{}
				}
				sub.P.Bind[prm] = ssa.NewConst(constant.MakeInt64(k), prm.Type())
			}
		}
	}
	// non-constant parameters are rendered as markers; after the analysis of the callee
	// a marker that stands alone is replaced by the bits of the argument, a marker inside
	// a longer path (an index expression, a field of a pointer argument) by the argument's path
	names := make([]string, len(callee.Params))
	argOf := map[string]ssa.Value{}
	for pi := range callee.Params {
		names[pi] = fmt.Sprintf("p%d", pi)
		if pi < len(call.Call.Args) {
			if _, bound := sub.P.Bind[callee.Params[pi]]; !bound {
				names[pi] = fmt.Sprintf("@a%d_%d@", sub.depth, pi)
				argOf[names[pi]] = call.Call.Args[pi]
			}
		}
	}
	sub.P.ParamNames = names
	rb := sub.Bits(ret)
	if rb == nil || len(rb) != w {
		return nil
	}
	argBits := map[string]BitVec{}
	rename := func(src string) string {
		for m, arg := range argOf {
			if strings.Contains(src, m) {
				src = strings.ReplaceAll(src, m, a.P.Path(arg))
			}
		}
		return normalizeWindows(src)
	}
	out := make(BitVec, w)
	for i, b := range rb {
		if b.Kind != BSrc {
			out[i] = b
			continue
		}
		acc := Bit{Kind: BZero}
		for _, t := range b.terms() {
			k := strings.LastIndexByte(t, '.')
			src, idx := t[:k], 0
			fmt.Sscanf(t[k+1:], "%d", &idx)
			var tb Bit
			if arg, isArg := argOf[src]; isArg {
				ab, seen := argBits[src]
				if !seen {
					ab = a.Bits(arg)
					argBits[src] = ab
				}
				if ab == nil || idx >= len(ab) {
					return nil
				}
				tb = ab[idx]
			} else {
				tb = Bit{Kind: BSrc, Src: rename(src), Idx: idx}
			}
			acc = xorBit(acc, tb)
		}
		if b.Neg {
			acc = notBit(acc)
		}
		out[i] = acc
	}
	return out
}

func resize(src BitVec, w int, signed bool) BitVec {
	out := make(BitVec, w)
	for i := 0; i < w; i++ {
		if i < len(src) {
			out[i] = src[i]
		} else if signed && len(src) > 0 && src[len(src)-1].Kind != BZero {
			out[i] = src[len(src)-1] // sign extension copies the top bit
		} else {
			out[i] = Bit{Kind: BZero}
		}
	}
	return out
}

func notBit(b Bit) Bit {
	switch b.Kind {
	case BZero:
		return Bit{Kind: BOne}
	case BOne:
		return Bit{Kind: BZero}
	case BSrc:
		b.Neg = !b.Neg
		return b
	}
	return b
}

func andBit(a, b Bit) Bit {
	if a.Kind == BZero || b.Kind == BZero {
		return Bit{Kind: BZero}
	}
	if a.Kind == BOne {
		return b
	}
	if b.Kind == BOne {
		return a
	}
	if a == b && a.Kind == BSrc {
		return a
	}
	return Bit{Kind: BMix}
}

func orBit(a, b Bit) Bit {
	if a.Kind == BOne || b.Kind == BOne {
		return Bit{Kind: BOne}
	}
	if a.Kind == BZero {
		return b
	}
	if b.Kind == BZero {
		return a
	}
	if a == b && a.Kind == BSrc {
		return a
	}
	return Bit{Kind: BMix}
}

// MaxXorTerms bounds the number of terms of one bit; beyond it the bit is Mix.
var MaxXorTerms = 24

func xorBit(a, b Bit) Bit {
	if a.Kind == BZero {
		return b
	}
	if b.Kind == BZero {
		return a
	}
	if a.Kind == BOne {
		return notBit(b)
	}
	if b.Kind == BOne {
		return notBit(a)
	}
	if a.Kind == BSrc && b.Kind == BSrc {
		// symmetric difference of the term sets
		cnt := map[string]int{}
		for _, t := range a.terms() {
			cnt[t]++
		}
		for _, t := range b.terms() {
			cnt[t]++
		}
		var ts []string
		for t, n := range cnt {
			if n%2 == 1 {
				ts = append(ts, t)
			}
		}
		if len(ts) > MaxXorTerms {
			return Bit{Kind: BMix}
		}
		return fromTerms(ts, a.Neg != b.Neg)
	}
	return Bit{Kind: BMix}
}

// Describe renders a bit vector as runs: "[7:4]=src[3:0] [3:0]=src2[3:0]".
func (v BitVec) Describe() string {
	if v == nil {
		return "<not an integer>"
	}
	var parts []string
	i := len(v) - 1
	for i >= 0 {
		j := i
		b := v[i]
		for j-1 >= 0 && sameRun(v[j], v[j-1]) {
			j--
		}
		var rhs string
		switch b.Kind {
		case BZero:
			rhs = "0"
		case BOne:
			rhs = "1"
		case BMix:
			rhs = "?"
		case BSrc:
			n := ""
			if b.Neg {
				n = "~"
			}
			if b.More != "" {
				rhs = b.String()
			} else if i == j {
				rhs = fmt.Sprintf("%s%s[%d]", n, b.Src, b.Idx)
			} else {
				rhs = fmt.Sprintf("%s%s[%d:%d]", n, b.Src, b.Idx, v[j].Idx)
			}
		}
		if i == j {
			parts = append(parts, fmt.Sprintf("[%d]=%s", i, rhs))
		} else {
			parts = append(parts, fmt.Sprintf("[%d:%d]=%s", i, j, rhs))
		}
		i = j - 1
	}
	out := strings.Join(parts, " ")
	if len(out) > 420 {
		out = out[:400] + " …"
	}
	return out
}

func sameRun(hi, lo Bit) bool {
	if hi.Kind != lo.Kind {
		return false
	}
	if hi.Kind == BSrc {
		if hi.More != "" || lo.More != "" {
			return false
		}
		return hi.Src == lo.Src && hi.Neg == lo.Neg && hi.Idx == lo.Idx+1
	}
	return true
}

// Field returns the run description restricted to bits hi..lo.
func (v BitVec) Field(hi, lo int) string {
	if v == nil || hi >= len(v) || lo < 0 {
		return "<out of range>"
	}
	sub := BitVec(append([]Bit(nil), v[lo:hi+1]...))
	return sub.Describe()
}

// IsCopy reports whether bits hi..lo of v are exactly bits (shi..slo) of source src.
func (v BitVec) IsCopy(hi, lo int, src string, slo int) bool {
	if v == nil || hi >= len(v) {
		return false
	}
	for i := lo; i <= hi; i++ {
		b := v[i]
		if b.Kind != BSrc || b.Src != src || b.Idx != slo+(i-lo) || b.Neg || b.More != "" {
			return false
		}
	}
	return true
}

// IsConst reports whether bits hi..lo equal the constant val.
func (v BitVec) IsConst(hi, lo int, val uint64) bool {
	if v == nil || hi >= len(v) {
		return false
	}
	for i := lo; i <= hi; i++ {
		want := BZero
		if val>>uint(i-lo)&1 == 1 {
			want = BOne
		}
		if v[i].Kind != want {
			return false
		}
	}
	return true
}

// IsXorOf reports whether bits hi..lo are, bit by bit, the XOR of the given
// sources (each "path" contributing its bit slo_k+(i-lo)), complemented iff neg.
func (v BitVec) IsXorOf(hi, lo int, neg bool, srcs ...SrcRef) bool {
	if v == nil || hi >= len(v) {
		return false
	}
	for i := lo; i <= hi; i++ {
		var ts []string
		for _, s := range srcs {
			ts = append(ts, fmt.Sprintf("%s.%d", s.Path, s.Lo+(i-lo)))
		}
		want := fromTerms(ts, neg)
		if v[i] != want {
			return false
		}
	}
	return true
}

// SrcRef names bits Lo.. of a source path.
type SrcRef struct {
	Path string
	Lo   int
}

// NotBit complements one bit of the provenance domain.
func NotBit(b Bit) Bit { return notBit(b) }

// SubstSource replaces, in v, every plain copy of bit j of source src by with[j]
// (complemented where the copy was). A bit that combines src with other terms
// becomes Mix. Used to compose the effect of two successive stores to one field.
func SubstSource(v BitVec, src string, with BitVec) BitVec {
	out := make(BitVec, len(v))
	for i, b := range v {
		out[i] = b
		if b.Kind != BSrc {
			continue
		}
		if b.Src == src && b.More == "" {
			if b.Idx < len(with) {
				r := with[b.Idx]
				if b.Neg {
					r = notBit(r)
				}
				out[i] = r
			} else {
				out[i] = Bit{Kind: BMix}
			}
			continue
		}
		for _, t := range b.terms() {
			if strings.HasPrefix(t, src+".") {
				out[i] = Bit{Kind: BMix}
			}
		}
	}
	return out
}

// SourceVec is the identity vector of an opaque source of width w.
func SourceVec(src string, w int) BitVec {
	out := make(BitVec, w)
	for i := range out {
		out[i] = Bit{Kind: BSrc, Src: src, Idx: i}
	}
	return out
}

var windowIndexRe = regexp.MustCompile(`\[(\d*):(\d*)\]\[(\d+)\]`)

// normalizeWindows rewrites x[a:b][k] (constants, k inside the window) as x[a+k]: an element read
// through a constant window of a slice or array is that element.
func normalizeWindows(s string) string {
	for i := 0; i < 4; i++ {
		m := windowIndexRe.FindStringSubmatchIndex(s)
		if m == nil {
			return s
		}
		var a, b, k int64 = 0, -1, 0
		if m[2] != m[3] {
			fmt.Sscanf(s[m[2]:m[3]], "%d", &a)
		}
		if m[4] != m[5] {
			fmt.Sscanf(s[m[4]:m[5]], "%d", &b)
		}
		fmt.Sscanf(s[m[6]:m[7]], "%d", &k)
		if b >= 0 && a+k >= b {
			return s
		}
		s = s[:m[0]] + fmt.Sprintf("[%d]", a+k) + s[m[1]:]
	}
	return s
}
